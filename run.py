#!/usr/bin/env python3
"""run.py — orchestrator of the ezc3d model-checking machinery.

  run.py check <Cxx> [--tier quick|thorough]     run one property's check (exit 0 / 1, evidence, replays)
  run.py replay <replay.json>                   re-execute one recorded counterexample linearly
  run.py build [flavour ...]                    (re)build the harness against the current tree
  run.py selftest                               replay-determinism and reference-codec self tests

Environment: VERIF_REPO (default /repo), VERIF_TIER, VERIF_SEED (recorded; nothing is sampled),
             VERIF_WORKERS (default 16), VERIF_DEADLINE (seconds, global per check).
"""
import sys, os, fnmatch, json, hashlib, subprocess, time, shutil, glob, re, argparse, tempfile
from concurrent.futures import ThreadPoolExecutor

VERIF = os.path.dirname(os.path.abspath(__file__))
REPO = os.environ.get("VERIF_REPO", "/repo")
HARNESS = os.path.join(VERIF, "harness")
BUILD = os.path.join(VERIF, "build")
WORKERS = int(os.environ.get("VERIF_WORKERS", "16"))
SEED = int(os.environ.get("VERIF_SEED", "0") or 0)
# evidence and replay files describe /repo itself; runs against another tree (mutant.py) write elsewhere
OUTDIR = os.environ.get("VERIF_EVIDENCE_DIR") or (VERIF if os.path.realpath(REPO) == "/repo" else f"/tmp/ezc3d-verif-out.{os.getpid()}")

FLAVOURS = {
    "plain": {"cxx": "g++", "flags": ["-std=c++14", "-O1", "-g1"], "ld": []},
    "asan": {"cxx": "g++", "flags": ["-std=c++14", "-O1", "-g1", "-fsanitize=address,undefined", "-fsanitize-recover=address",
                                     "-fno-sanitize-recover=undefined", "-fno-sanitize=signed-integer-overflow,float-cast-overflow,shift",
                                     "-fno-omit-frame-pointer", "-D_GLIBCXX_ASSERTIONS", "-DVF_ASAN"], "ld": ["-fsanitize=address,undefined"]},
    "tsan": {"cxx": "g++", "flags": ["-std=c++14", "-O1", "-g1", "-fsanitize=thread"], "drv_extra": ["-DVF_FREERUN"], "ld": ["-fsanitize=thread"]},
    # scheduling points at every entry/exit of a library function; the harness itself is not instrumented
    "sched": {"cxx": "g++", "flags": ["-std=c++14", "-O1", "-g1"], "lib_extra": ["-finstrument-functions", "-finstrument-functions-exclude-file-list=/usr/include,/usr/lib"], "ld": ["-Wl,-z,now"]},   # eager binding: the per-schedule children do not resolve symbols again
}
ASAN_ENV = {"ASAN_OPTIONS": "halt_on_error=0:detect_leaks=0:abort_on_error=0:print_summary=1:allocator_may_return_null=1:max_allocation_size_mb=2048",
            "UBSAN_OPTIONS": "print_stacktrace=1:halt_on_error=1"}


def log(*a):
    print(*a, file=sys.stderr, flush=True)


def sh(cmd, **kw):
    return subprocess.run(cmd, **kw)


# ---------------------------------------------------------------------------------------------- build
def tree_hash(flavour, extra=()):
    h = hashlib.sha256()
    files = sorted(glob.glob(os.path.join(REPO, "src", "*.cpp")) + glob.glob(os.path.join(REPO, "include", "*.h")) +
                   glob.glob(os.path.join(HARNESS, "*")))
    for f in files:
        if os.path.isfile(f):
            h.update(f.encode()); h.update(open(f, "rb").read())
    h.update(json.dumps(FLAVOURS[flavour], sort_keys=True).encode())
    for e in extra:
        h.update(str(e).encode())
    return h.hexdigest()[:16]


DRIVERS = {  # binary -> (sources in harness/, extra flags, link with the library objects)
    "drv_api": (["drv_api.cpp"], [], True),
    "drv_file": (["drv_file.cpp"], [], True),
    "drv_fault": (["drv_fault.cpp", "io_shim.c"], [], True),
    "drv_damage": (["drv_damage.cpp"], [], True),
    "drv_misc": (["drv_misc.cpp"], [], True),
    "drv_sched": (["drv_sched.cpp"], [], True),
    "drv_static": (["drv_static.cpp"], [], True),
    "drv_containers": (["drv_containers.cpp"], [], True),
}


def build(flavour="plain", drivers=("drv_api", "drv_file")):
    """Compile /repo/src/*.cpp of the CURRENT tree plus the requested drivers. Content-hashed cache."""
    key = tree_hash(flavour)
    out = os.path.join(BUILD, f"{flavour}-{key}")
    os.makedirs(out, exist_ok=True)
    if os.path.realpath(REPO) != "/repo":
        open(os.path.join(out, ".mutant"), "w").close()
    import fcntl
    lock = open(os.path.join(out, ".lock"), "w")
    fcntl.flock(lock, fcntl.LOCK_EX)   # two checks started together must not compile into the same directory at once
    try:
        return _build_locked(flavour, drivers, out)
    finally:
        fcntl.flock(lock, fcntl.LOCK_UN); lock.close()


def _build_locked(flavour, drivers, out):
    fl = FLAVOURS[flavour]
    inc = ["-I" + os.path.join(REPO, "include"), "-I" + HARNESS]
    jobs = []
    libobjs = []
    for src in sorted(glob.glob(os.path.join(REPO, "src", "*.cpp"))):
        obj = os.path.join(out, "lib_" + os.path.basename(src)[:-4] + ".o")
        libobjs.append(obj)
        if not os.path.exists(obj):
            jobs.append(([fl["cxx"]] + fl["flags"] + fl.get("lib_extra", []) + inc + ["-c", src, "-o", obj + ".tmp"], obj))
    drvobjs = {}
    for d in drivers:
        srcs, xf, _ = DRIVERS[d]
        drvobjs[d] = []
        for s in srcs:
            obj = os.path.join(out, d + "_" + os.path.splitext(s)[0] + ".o")
            drvobjs[d].append(obj)
            if not os.path.exists(obj):
                cc = fl["cxx"] if s.endswith(".cpp") else "gcc"
                flags = fl["flags"] if s.endswith(".cpp") else [f for f in fl["flags"] if not f.startswith("-std=") and not f.startswith("-D_GLIBCXX")]
                if s.endswith(".c"):
                    flags = ["-O1", "-g1"]  # shims are never instrumented
                jobs.append(([cc] + flags + fl.get("drv_extra", []) + xf + inc + ["-c", os.path.join(HARNESS, s), "-o", obj + ".tmp"], obj))

    def run(job):
        cmd, obj = job
        r = sh(cmd, capture_output=True, text=True)
        if r.returncode != 0:
            return (obj, r.stderr)
        os.replace(obj + ".tmp", obj)
        return (obj, None)

    if jobs:
        t0 = time.time()
        with ThreadPoolExecutor(max_workers=16) as ex:
            res = list(ex.map(run, jobs))
        errs = [(o, e) for o, e in res if e]
        if errs:
            for o, e in errs:
                log(f"BUILD ERROR {o}:\n{e[:4000]}")
            raise SystemExit(3)
        log(f"[build] {flavour}: compiled {len(jobs)} objects in {time.time() - t0:.1f}s -> {out}")
    for d in drivers:
        exe = os.path.join(out, d)
        if not os.path.exists(exe):
            r = sh([fl["cxx"]] + drvobjs[d] + libobjs + fl["ld"] + ["-rdynamic", "-ldl", "-lpthread", "-o", exe + ".tmp"], capture_output=True, text=True)
            if r.returncode != 0:
                log("LINK ERROR", r.stderr[:4000]); raise SystemExit(3)
            os.replace(exe + ".tmp", exe)
    # drop stale build dirs of this flavour (disk is limited)
    for d in glob.glob(os.path.join(BUILD, f"{flavour}-*")):
        if d != out and time.time() - os.path.getmtime(d) > 600 and os.environ.get("VERIF_KEEP_BUILDS") != "1" and os.path.realpath(REPO) == "/repo":
            shutil.rmtree(d, ignore_errors=True)
    return out


# ---------------------------------------------------------------------------------------------- findings
def load_known():
    p = os.path.join(VERIF, "known_findings.json")
    if not os.path.exists(p):
        return []
    return json.load(open(p)).get("findings", [])


class Report:
    """Collects findings of one check run, matches them against known_findings.json, writes evidence + replays."""

    def __init__(self, prop, tier, level):
        self.prop, self.tier, self.level = prop, tier, level
        self.findings = {}  # sig -> dict(detail, replay, count)
        self.coverage = {}
        self.assumptions = []
        self.t0 = time.time()
        self.notes = []

    def add(self, sig, detail, replay, count=1):
        f = self.findings.get(sig)
        if f is None:
            self.findings[sig] = {"detail": detail, "replay": replay, "count": count}
        else:
            f["count"] += count
            # keep the shortest witness
            if replay and f["replay"] and len(json.dumps(replay)) < len(json.dumps(f["replay"])):
                f["replay"], f["detail"] = replay, detail

    def finish(self):
        known = [k for k in load_known() if k["property"] == self.prop]
        known_sigs = {k["signature"]: k for k in known}
        rdir = os.path.join(OUTDIR, "replays", self.prop)
        shutil.rmtree(rdir, ignore_errors=True)
        new, seen_known = [], []
        for sig, f in sorted(self.findings.items()):
            k = known_sigs.get(sig)
            if k is None:
                # a finding may be identified by its input alone: 'signature_glob' leaves the code-location part open
                # (the innermost function of a hang is where the tree happens to loop; a refactoring renames it, the failing input stays)
                k = next((c for c in known if c.get("signature_glob") and fnmatch.fnmatchcase(sig, c["signature_glob"])), None)
            if k is not None:
                seen_known.append((sig, k, f))
            else:
                new.append((sig, f))
        for sig, k, f in seen_known:
            print(f"KNOWN-FINDING: property={self.prop} {sig} :: {k.get('what', '')} (seen {f['count']}x this run)")
        rc = 0
        if new:
            os.makedirs(rdir, exist_ok=True)
            for i, (sig, f) in enumerate(new):
                path = os.path.join(rdir, f"{i:03d}.json")
                rep = dict(f["replay"] or {})
                rep.update({"property": self.prop, "signature": sig, "detail": f["detail"], "count": f["count"]})
                json.dump(rep, open(path, "w"), indent=1)
                print(f"VIOLATION property={self.prop} replay={path}")
                print(f"  signature: {sig}\n  detail: {f['detail'][:300]}\n  witness: {rep.get('history', rep.get('input', ''))!s:.300}")
            rc = 1
        cov = dict(self.coverage)
        cov.setdefault("samples", ["(none)"])
        ev = {"property_id": self.prop, "tier": self.tier, "seed": SEED, "level": self.level, "coverage": cov,
              "assumptions": self.assumptions, "wall_s": round(time.time() - self.t0, 2), "violations": len(new),
              "known_findings_seen": [s for s, _, _ in seen_known], "notes": self.notes}
        os.makedirs(os.path.join(OUTDIR, "evidence"), exist_ok=True)
        json.dump(ev, open(os.path.join(OUTDIR, "evidence", f"{self.prop}.json"), "w"), indent=1)
        c = cov
        print(f"[{self.prop}/{self.tier}] states={c.get('states')} transitions={c.get('transitions')} evaluations={c.get('evaluations')} "
              f"exhaustive={c.get('exhaustive')} new_violations={len(new)} known={len(seen_known)} wall={ev['wall_s']}s")
        return rc


# ---------------------------------------------------------------------------------------------- engine A
def scratch_dir(tag):
    d = f"/dev/shm/ezc3d-verif.{os.getpid()}.{tag}"
    shutil.rmtree(d, ignore_errors=True)
    os.makedirs(d)
    return d


def run_api(flavour, alphabet, oracles, depth, tier, deadline, maxstates=3000000, env_extra=None, hang=30, tag=None):
    bdir = build(flavour, ("drv_api",))
    sc = scratch_dir(tag or alphabet)
    out = os.path.join(sc, "out.json")
    env = dict(os.environ)
    if flavour == "asan":
        env.update(ASAN_ENV)
    if env_extra:
        env.update(env_extra)
    cmd = [os.path.join(bdir, "drv_api"), "--alphabet", alphabet, "--oracles", oracles, "--depth", str(depth), "--tier", tier, "--workers", str(WORKERS),
           "--maxstates", str(maxstates), "--deadline", str(deadline), "--scratch", sc, "--out", out, "--hang", str(hang)]
    t0 = time.time()
    r = sh(cmd, env=env, capture_output=True, text=True)
    if r.returncode != 0 or not os.path.exists(out):
        log("driver failed:", " ".join(cmd), r.stdout[-2000:], r.stderr[-2000:])
        raise SystemExit(3)
    d = json.load(open(out))
    d["_scratch"] = sc
    d["_cmd"] = cmd
    d["_flavour"] = flavour
    log(f"[api] {flavour}/{alphabet}/{oracles} depth<={depth}: states={d['states']} transitions={d['transitions']} levels={d['levels']} "
        f"completed={d['depth_completed']} fixpoint={d['fixpoint']} capped={d['capped']} deadline={d['deadline_hit']} restarts={d['restarts']} {time.time() - t0:.1f}s")
    return d


def san_signature(report):
    """kind + innermost ezc3d frame of a sanitizer report."""
    m = re.search(r"AddressSanitizer: ([A-Za-z0-9_-]+)", report)
    kind = m.group(1) if m else ("ubsan" if "runtime error:" in report else "sanitizer")
    if kind == "ubsan":
        m2 = re.search(r"runtime error: ([^|]{0,60})", report)
        kind = "ubsan:" + (m2.group(1).strip() if m2 else "?")
    fn = "?"
    for m3 in re.finditer(r"#\d+ 0x[0-9a-f]+ in (ezc3d::[A-Za-z0-9_:~]+)", report):
        fn = m3.group(1); break
    return f"{kind}/{fn}"


def crash_signature(c):
    err = c.get("stderr", "")
    if "AddressSanitizer" in err or "runtime error:" in err:
        return "crash/" + san_signature(err.replace("\n", "|"))
    m = re.search(r"Assertion '([^']{0,80})' failed", err)
    if m:
        return f"crash/libstdc++-assertion/{c['opclass']}/{m.group(1)[:60]}"
    return f"crash/{c['kind']}/{c['opclass']}"


def absorb_api(rep, d, props, crash_prop=None, san_prop=None):
    """Move the driver's violations for `props` into the report."""
    base = {"engine": "api", "alphabet": d["alphabet"], "oracles": d["oracles"], "tier": d["tier"], "flavour": d["_flavour"]}
    for v in d["violations"]:
        if v["prop"] == "HARNESS":
            rep.add("harness/" + v["sig"], "HARNESS ERROR (not a property verdict): " + v["detail"], dict(base, history=v["history"]), v["count"])
            continue
        if v["prop"] in props:
            rep.add(v["sig"], v["detail"], dict(base, history=v["history"]), v["count"])
    if crash_prop:
        for c in d["crashes"]:
            h = c["history"] + (" ; " if c["history"] and c["at"][0] != "<" else "") + (c["at"] if c["at"][0] != "<" else "")
            rep.add(crash_signature(c), f"worker died ({c['kind']}) at {c['at']}: " + c["stderr"][-600:], dict(base, history=h, at=c["at"]))
    if san_prop:
        for s in d["san_reports"]:
            rep.add(san_signature(s["report"]), s["report"][:900], dict(base, history=s["history"]))
    if d["quarantined_ops"]:
        rep.notes.append("ops disabled after repeated crashes: " + ", ".join(d["quarantined_ops"]))


def cov_from_api(runs):
    states = sum(d["states"] for d in runs)
    cov = {
        "states": states, "transitions": sum(d["transitions"] for d in runs), "traces_validated_against_impl": sum(d["executions"] for d in runs),
        "evaluations": sum(d["executions"] for d in runs), "distinct_nontrivial": max(2, states - len(runs)),
        "rule": "explicit-state BFS over API operation histories executed on the real library; a state is a history replayed on a fresh object, "
                "deduplicated on the hash of the full public-accessor dump + aliasing partition; non-trivial = distinct state other than the initial one",
        "exhaustive": all((d["fixpoint"] or d["depth_completed"] >= d["depth_bound"]) and not d["capped"] and not d["deadline_hit"] and not d["quarantined_ops"] for d in runs),
        "runs": [{k: d[k] for k in ("alphabet", "oracles", "ops", "depth_bound", "depth_completed", "fixpoint", "capped", "deadline_hit", "states", "transitions", "executions",
                                   "refused", "levels", "outcomes", "probes", "restarts", "wall_s")} for d in runs],
        "samples": [s for d in runs for s in d["samples"]][:12] or ["<initial state>"],
        "distinct_outcomes": sorted({k for d in runs for k in d["outcomes"]}),
    }
    return cov


# per-property configuration of engine A: list of (flavour, alphabet, oracles, quick depth, thorough depth)
API_CHECKS = {
    "C05": [("plain", "mut", "C05", 6, 8), ("plain", "loaded", "C05", 4, 6)],
    "C06": [("plain", "frames", "C06", 5, 7), ("plain", "c07", "C06", 5, 7), ("plain", "loaded", "C06", 4, 6)],
    "C07": [("plain", "c07", "C07", 6, 9), ("plain", "loaded", "C07", 4, 6), ("plain", "frames", "C07", 5, 6)],   # frames: caller-side frame objects that were edited / renamed before being handed over
    "C08": [("plain", "frames", "C08", 5, 7), ("plain", "loaded", "C08", 4, 6), ("plain", "wild", "C08", 4, 5)],
    "C09": [("plain", "params", "C09", 3, 4), ("plain", "loaded", "C09", 4, 6)],
    "C10": [("plain", "mut", "C10", 6, 8), ("plain", "c07", "C10", 6, 8), ("plain", "params", "C10", 3, 4), ("plain", "loaded", "C10", 4, 6), ("plain", "wild", "C10", 4, 6)],
    "C11": [("plain", "lookup", "C11", 4, 7)],
    "C01": [("plain", "build", "C01", 4, 6)],
    "C03": [("plain", "build", "C03", 4, 6)],
}


def check_api(prop, tier, deadline):
    rep = Report(prop, tier, "model_checking")
    runs = []
    table = None
    sweep = None
    if prop in ("C01", "C03"):
        sweep = run_misc("residue", tier)
        log(f"[residue] cases={sweep['cases']} distinct_residues={sweep['distinct_residues']} crashed={len(sweep['crashed'])}")
        for v in sweep["violations"]:
            if v["prop"] == prop:
                rep.add(v["sig"], v["detail"], {"engine": "misc", "mode": "residue", "tier": tier, "input": v["case"]}, v["count"])
        for c in sweep["crashed"]:
            rep.add("crash/residue_sweep", "worker died on " + c, {"engine": "misc", "mode": "residue", "tier": tier, "input": c})
    sizes = None
    if prop == "C01":   # content whose size sits at a field boundary (127|128, 255, 32767|32768, 65535) yet within every capacity limit must round-trip like any other
        sizes = run_misc("c17", "quick")
        for v in sizes["violations"]:
            if not v["sig"].startswith("C10|") and not v["sig"].startswith("C05|") and "beyond-limit" not in v["sig"] and ("reload_" in v["sig"] or "crash" in v["sig"]):
                rep.add("sizes/" + v["sig"], v["detail"], {"engine": "misc", "mode": "c17", "tier": "quick", "input": v["case"]}, v["count"])
    if prop == "C05":   # the three frame counts after a refused append at the frame limit and one more successful call
        lim5 = run_misc("c17", "quick")
        for v in lim5["violations"]:
            if v["sig"].startswith("C05|"):
                rep.add(v["sig"][4:], v["detail"], {"engine": "misc", "mode": "c17", "tier": "quick", "input": v["case"]}, v["count"])
    limits = None
    if prop == "C10":   # refused declarations at the capacity limits (256th point, ...) must also leave the object unchanged
        limits = run_misc("c17", "quick")
        for v in limits["violations"]:
            if v["sig"].startswith("C10|"):
                rep.add(v["sig"][4:], v["detail"], {"engine": "misc", "mode": "c17", "tier": "quick", "input": v["case"]}, v["count"])
    if prop == "C09":
        table = run_misc("setters", tier)
        for v in table["violations"]:
            rep.add("setter_table/" + v["sig"], "typed setter misbehaves for " + v["case"], {"engine": "misc", "mode": "setters", "tier": tier, "input": v["case"]}, v["count"])
    per = max(deadline / max(1, len(API_CHECKS[prop])), 180 if tier == "quick" else 0)   # quick runs need 3-35 s each on an idle machine; the floor keeps them complete on a loaded one
    for flavour, alphabet, oracles, dq, dt in API_CHECKS[prop]:
        d = run_api(flavour, alphabet, oracles, dq if tier == "quick" else dt, tier, per)
        absorb_api(rep, d, {prop}, crash_prop=prop)
        runs.append(d)
        shutil.rmtree(d["_scratch"], ignore_errors=True)
    rep.coverage = cov_from_api(runs)
    if prop in ("C08", "C09", "C11"):
        cc = absorb_containers(rep, prop, tier); rep.coverage["standalone_containers"] = cc; rep.coverage["evaluations"] += cc["states"]
    if sizes:
        rep.coverage["in_limit_sizes_at_field_boundaries"] = {"cases": sizes["single_cases"], "rule": "C17's single-limit builder: every quantity at 127|128 / 32767|32768 (signed boundary of its field), L-1 and L; saved, reloaded, compared"}
    if limits:
        rep.coverage["refused_calls_at_capacity_limits"] = {"cases": limits["done"]}
    if sweep:
        rep.coverage["residue_sweep"] = {"objects": sweep["done"], "bases": sweep["bases"], "distinct_residues_of_section_length_mod_512": sweep["distinct_residues"], "samples": sweep["samples"],
                                         "rule": "filler parameters grow the parameter section one byte at a time over 1024 consecutive lengths per base object; each object saved, reference-decoded, reloaded, compared"}
        rep.coverage["evaluations"] += sweep["done"]
    if table:
        rep.coverage["setter_table"] = {k: table[k] for k in ("shapes", "evaluations", "expected_accept", "expected_refuse", "samples")}
    rep.assumptions = ["the public accessors expose every field that influences a later public call (state hash soundness; checked by the replay-divergence assertion on every transition)",
                       "histories are bounded by the shape guards and depth recorded in coverage.runs"]
    return rep.finish()


# ---------------------------------------------------------------------------------------------- engine B
VENDOR = ["test/c3dFiles/Vicon.c3d", "test/c3dFiles/Qualisys.c3d", "test/c3dFiles/Optotrak.c3d", "example/markers_analogs.c3d"]


def run_file(flavour, mode, devs, tier, deadline, tag=None, vendor=True, env_extra=None, transcript=None):
    bdir = build(flavour, ("drv_file",))
    sc = scratch_dir(tag or mode)
    out = os.path.join(sc, "out.json")
    env = dict(os.environ)
    if flavour == "asan":
        env.update(ASAN_ENV); env["ASAN_OPTIONS"] = env["ASAN_OPTIONS"].replace("halt_on_error=0", "halt_on_error=1")
    cmd = [os.path.join(bdir, "drv_file"), "--mode", mode, "--devs", str(devs), "--tier", tier, "--workers", str(WORKERS), "--deadline", str(deadline), "--scratch", sc, "--out", out]
    if vendor:
        for v in VENDOR:
            if os.path.exists(os.path.join(REPO, v)):
                cmd += ["--vendor", os.path.join(REPO, v)]
    if env_extra:
        env.update(env_extra)
    if transcript:
        cmd += ["--transcript", transcript]
    t0 = time.time()
    r = sh(cmd, env=env, capture_output=True, text=True)
    if r.returncode != 0 or not os.path.exists(out):
        log("driver failed:", " ".join(cmd), r.stdout[-2000:], r.stderr[-2000:]); raise SystemExit(3)
    d = json.load(open(out)); d["_cmd"] = cmd; d["_flavour"] = flavour
    shutil.rmtree(sc, ignore_errors=True)
    log(f"[file] {flavour}/{mode} devs<={devs}: cases={d['cases']} done={d['done']} outcomes={d['outcomes']} crashes={d['crashes_total']} {time.time() - t0:.1f}s")
    return d


def case_class(case):
    """collapse the degenerate 'file with neither points nor channels' family into one class"""
    kv = dict(x.split("=", 1) for x in case.split(";") if "=" in x)
    if kv.get("points") == "0" and (kv.get("chans") == "0" or kv.get("agroup") == "empty"):
        return "no-points-no-channels"
    return case


def absorb_file(rep, d, props, crash_prop=None):
    base = {"engine": "file", "mode": d["mode"], "tier": d["tier"], "flavour": d["_flavour"]}
    for v in d["violations"]:
        if v["prop"] == "HARNESS":
            rep.add("harness/" + v["field"] + "/" + v["case"], "HARNESS ERROR (not a property verdict): " + v["detail"], dict(base, input=v["case"]), v["count"]); continue
        if v["prop"] in props:
            case = case_class(v["case"].replace(REPO + "/", "<repo>/"))
            sig = v["field"] if d["mode"] == "c12" else v["field"] + "/" + case
            rep.add(sig, v["detail"], dict(base, input=v["case"]), v["count"])
    if crash_prop:
        for c in d["crashes"]:
            err = c["stderr"]
            kind = san_signature(err.replace("\n", "|")) if ("AddressSanitizer" in err or "runtime error:" in err) else c["kind"]
            m = re.search(r"Assertion '([^']{0,80})' failed", err)
            if m:
                kind = "libstdc++-assertion/" + m.group(1)[:60]
            rep.add(f"crash/{kind}/" + c["case"].replace(REPO + "/", "<repo>/"), f"worker died ({c['kind']}) on case {c['case']}: " + err[-500:], dict(base, input=c["case"]))


def cov_from_file(runs):
    ev = sum(d["done"] for d in runs)
    return {"evaluations": ev, "distinct_nontrivial": max(2, sum(d["done"] - d["outcomes"].get("not-well-formed", 0) - 1 for d in runs)),
            "rule": "deviation-bounded enumeration: default content & layout plus every combination of at most k non-default alternatives over the content/layout dimensions "
                    "(points, channels, sub-frames, frames, first frame, events, rates, float values, parameter menu, descriptions, locks, label counts, leading zeros, prologue, "
                    "parameter block, record order, group ids, last next-offset, empty ANALOG group), each file produced by the independent encoder, validated by the independent decoder and "
                    "executed on the real loader/writer; plus the binary files shipped in the repository; distinct non-trivial = well-formed cases other than the default",
            "exhaustive": all(d["done"] + d["crashes_total"] >= d["cases"] and not d["deadline_hit"] for d in runs),
            "runs": [{k: d[k] for k in ("mode", "devs", "cases", "done", "outcomes", "crashes_total", "restarts", "wall_s", "generations")} for d in runs],
            "samples": [s for d in runs for s in d["samples"]][:12], "distinct_outcomes": sorted({k for d in runs for k in d["outcomes"]})}


FILE_CHECKS = {"C02": ("c02", 3, 4), "C04": ("c04", 3, 4), "C12": ("c12", 0, 0)}


def check_file(prop, tier, deadline):
    mode, dq, dt = FILE_CHECKS[prop]
    rep = Report(prop, tier, "exploration")
    d = run_file("plain", mode, dq if tier == "quick" else dt, tier, deadline, vendor=(prop != "C12"))
    absorb_file(rep, d, {prop}, crash_prop=prop)
    rep.coverage = cov_from_file([d])
    if prop == "C12":
        rep.coverage["rule"] = ("pattern files from the independent encoder: all 256 byte values (byte parameter [16,16]), all 65536 16-bit values (4 x integer parameter [128,128]), "
                                "header words points/first/last/gap/sub-frames/events over {0,1,2,127,128,255,256,32767,32768,65534,65535} within range, 2048 float patterns "
                                "(256 exponents x 2 signs x 4 mantissas) as x, y, z, residual (4 rotations), analog sample, float parameter, event time and header rate; each file loaded, "
                                "compared bit-exactly with the reference decode, re-saved and the re-saved element bytes compared")
        rep.coverage["patterns"] = {"bytes": 256, "int16": 65536, "float": 2048}
        cc = absorb_containers(rep, "C12", tier); rep.coverage["standalone_header"] = cc
    rep.assumptions = ["trusted base: harness/genfile.h (encoder) and harness/refc3d.h (decoder), written from the C3D user guide, bound to each other (decode(encode(x)) on every case) and to the shipped vendor files"]
    return rep.finish()


# ---------------------------------------------------------------------------------------------- C15
def check_c15(tier, deadline):
    rep = Report("C15", tier, "fault_enumeration")
    bdir = build("plain", ("drv_fault",))
    sc = scratch_dir("c15"); out = os.path.join(sc, "out.json")
    cmd = [os.path.join(bdir, "drv_fault"), "--tier", tier, "--scratch", sc, "--out", out, "--deadline", str(deadline * 0.8)]
    r = sh(cmd, capture_output=True, text=True, timeout=deadline * 2 + 120)
    if r.returncode != 0 or not os.path.exists(out):
        log("driver failed", r.stdout[-1000:], r.stderr[-1000:]); raise SystemExit(3)
    d = json.load(open(out)); shutil.rmtree(sc, ignore_errors=True)
    for v in d["violations"]:
        rep.add(v["sig"], v["detail"], {"engine": "fault", "tier": tier, "input": v["object"] + ":" + v["plan"]}, v["count"])
    rep.coverage = {"evaluations": d["evaluations"], "distinct_nontrivial": d["runs_with_injected_fault"],
                    "rule": "for each of 6 objects (blank; 1 point x 2 frames; points+channels+2-block parameter section; 14 KB file crossing the stream buffer; an object loaded and saved over its source; a 4.6 MB object, coarser steps) every single fault plan, each in three calling contexts (direct, in a catch handler, during stack unwinding): "
                            "open fails (ENOENT/EACCES/EROFS), device capacity C for every C in [0,size), k-th write call fails (EIO/EFBIG) for every k, close fails, every/k-th write short, unseekable destination / k-th seek fails; "
                            "thorough adds pairs (short writes x capacity / x k-th failure, close failure x capacity); non-trivial = runs in which a fault was actually injected",
                    "samples": d["samples"], "objects": d["objects"], "outcomes": d["outcomes"], "plans_not_run_deadline": d.get("plans_not_run_deadline", 0), "exhaustive": d.get("plans_not_run_deadline", 0) == 0}
    rep.assumptions = ["faults are injected at libc's fopen/fopen64/write/writev/fclose (link-time interposition under libstdc++'s basic_filebuf); kernel-level partial failures below write() are modelled by capacity/short-write plans"]
    log(f"[fault] evaluations={d['evaluations']} outcomes={d['outcomes']}")
    return rep.finish()


# ---------------------------------------------------------------------------------------------- C16
def check_c16(tier, deadline):
    rep = Report("C16", tier, "fault_enumeration")
    runs = []
    # (flavour, profile, per-load limit, primed): primed = the loader children are forked from a process that has already loaded valid files
    plan = [("plain", "full", 0.4, False), ("plain", "boundary", 0.4, True), ("asan", "boundary", 2.0, True), ("asan", "pairs", 2.0, False)] if tier == "quick" else \
           [("plain", "full", 0.4, False), ("plain", "full", 0.4, True), ("asan", "full", 2.0, False), ("asan", "boundary", 2.0, True), ("asan", "pairs", 2.0, False)]
    for flavour, profile, limit, primed in plan:
        bdir = build(flavour, ("drv_damage",))
        sc = scratch_dir("c16" + flavour); out = os.path.join(sc, "out.json")
        env = dict(os.environ)
        if flavour == "asan":
            env["ASAN_OPTIONS"] = "detect_leaks=0:allocator_may_return_null=0:max_allocation_size_mb=1024:abort_on_error=0"
            env["UBSAN_OPTIONS"] = "print_stacktrace=1:halt_on_error=1"
        cmd = [os.path.join(bdir, "drv_damage"), "--tier", tier, "--profile", profile, "--limit", str(limit), "--workers", str(WORKERS), "--deadline", str(max(deadline / len(plan), 150 if tier == "quick" else 0)), "--scratch", sc, "--out", out] + (["--primed"] if primed else [])
        r = sh(cmd, env=env, capture_output=True, text=True)
        if r.returncode != 0 or not os.path.exists(out):
            log("driver failed", " ".join(cmd), r.stdout[-1000:], r.stderr[-1000:]); raise SystemExit(3)
        d = json.load(open(out)); shutil.rmtree(sc, ignore_errors=True)
        log(f"[damage] {flavour}/{profile}{'/primed' if primed else ''}: cases={d['cases']} done={d['done']} outcomes={d['outcomes']} {d['wall_s']}s")
        for v in d["violations"]:
            rep.add(v["sig"], f"damaged file makes the loader end in '{v['sig'].split('/')[0]}' ({flavour} build)", {"engine": "damage", "tier": tier, "flavour": flavour, "input": v["case"]}, v["count"])
        runs.append(d)
    rep.coverage = {"evaluations": sum(d["done"] for d in runs), "distinct_nontrivial": sum(d["done"] for d in runs),
                    "rule": "7 small valid base files (blank, points only, points+analogs+events, multi-dimensional parameters, 7 and 511 leading zeros, channels with the minimal parameter set) from the independent encoder; damage = every truncation length; "
                            "every byte of header + parameter section + first data block x {0,1,0x7F,0x80,0xFF}; every structural byte (name lengths, ids, next-offsets, types, dimension counts, dimensions, "
                            "description lengths, prologue, header counts/range/data start) x all 256 values; pairs of structural bytes x boundary values (2 bases quick, all thorough); under the sanitizer also EVERY pair of structural bytes of the smallest base(s) x {1,0x7F}^2 (thorough: {1,0x7F,0xFF}^2, three bases); each damaged file loaded in a forked "
                            "child (plain build: address-space cap + watchdog, timeouts re-run alone with a 10x limit; ASan build: sanitizer reports); every case is a distinct damaged input; 'primed' runs fork the children from a process that has already loaded 12 valid files "
                            "(process-wide state left by earlier loads is warm), the others from a process that never ran library code",
                    "exhaustive": all(d["done"] >= d["cases"] for d in runs),
                    "runs": [{k: d[k] for k in ("flavour", "profile", "primed_with_valid_loads", "cases", "single_damage_cases", "pair_cases", "done", "outcomes", "wall_s", "limit_s", "bases")} for d in runs],
                    "samples": runs[0]["samples"]}
    rep.assumptions = ["an allocation request that fails at once even under an 8 GiB cap (std::length_error / std::bad_alloc from an absurd count) is a clean refusal; growth that only the small cap stops is reported as memory_not_proportional"]
    return rep.finish()


# ---------------------------------------------------------------------------------------------- C17 / setter table
CONTAINER_PREFIXES = {   # which property a stand-alone container finding belongs to
    "C11": ("points/pos", "points/name", "points/size", "points/outcome", "subframe/pos", "subframe/name", "subframe/size", "subframe/outcome", "analogs/", "group/pos", "group/name/"),
    "C09": ("group/size", "group/lock_flag", "group/name", "group/description", "parameters/group/"),
    "C08": ("frame/",),
    "C12": ("header/",),
    "C14": ("points/gap_element_not_zero", "subframe/gap_element_not_zero"),
    "C13": ("crash/containers",),
}


def run_containers(tier, flavour="plain"):
    bdir = build(flavour, ("drv_containers",))
    sc = scratch_dir("containers"); out = os.path.join(sc, "out.json")
    env = dict(os.environ); env["MALLOC_PERTURB_"] = "170"   # freshly allocated memory is never zero by luck
    if flavour == "asan":
        env.update(ASAN_ENV); env["ASAN_OPTIONS"] = env["ASAN_OPTIONS"].replace("halt_on_error=0", "halt_on_error=1")
    r = sh([os.path.join(bdir, "drv_containers"), "--depth", "4" if tier == "quick" else "5", "--out", out], env=env, capture_output=True, text=True)
    if not os.path.exists(out):
        log("driver failed: drv_containers", r.stdout[-800:], r.stderr[-800:]); raise SystemExit(3)
    d = json.load(open(out)); d["_stderr"] = r.stderr[-1500:]; shutil.rmtree(sc, ignore_errors=True)
    return d


def absorb_containers(rep, prop, tier, flavour="plain"):
    """stand-alone use of Points / SubFrame / Analogs / Frame / Group / Parameters / Header against a reference model (drv_containers)"""
    d = run_containers(tier, flavour)
    for v in d["violations"]:
        if any(v["sig"].startswith(px) for px in CONTAINER_PREFIXES.get(prop, ())) and not (prop == "C09" and v["sig"].startswith("group/name/")):
            rep.add("standalone/" + v["sig"], v["detail"] + (" :: " + d["_stderr"][-400:] if v["sig"].startswith("crash") else ""), {"engine": "containers", "tier": tier, "flavour": flavour, "input": v["history"]}, v["count"])
    log(f"[containers] {flavour}: states={d['states']} transitions={d['transitions']} lookups={d['lookups']} depth={d['depth']}")
    return {"states": d["states"], "transitions": d["transitions"], "look_ups": d["lookups"], "depth": d["depth"],
            "rule": "Points, SubFrame, Analogs, Frame, Group, Parameters and Header used stand-alone (no c3d): BFS over append / indexed set (inside, at size, past the end) / rename / edit / copy ops (Points, SubFrame), "
                    "add-replace / lock / rename ops (Group), append-or-merge (Parameters), every order of the setters (Header); after every op everything is read back by position and by name and compared with a std::vector model"}


def run_misc(mode, tier, extra=()):
    bdir = build("plain", ("drv_misc",))
    sc = scratch_dir(mode); out = os.path.join(sc, "out.json")
    cmd = [os.path.join(bdir, "drv_misc"), "--mode", mode, "--tier", tier, "--scratch", sc, "--out", out, "--workers", str(WORKERS)] + list(extra)
    r = sh(cmd, capture_output=True, text=True)
    if r.returncode != 0 or not os.path.exists(out):
        log("driver failed", " ".join(cmd), r.stdout[-1000:], r.stderr[-1000:]); raise SystemExit(3)
    d = json.load(open(out)); shutil.rmtree(sc, ignore_errors=True)
    return d


def check_c17(tier, deadline):
    rep = Report("C17", tier, "exploration")
    d = run_misc("c17", tier)
    log(f"[limits] cases={d['cases']} outcomes={d['outcomes']} {d['wall_s']}s")
    for v in d["violations"]:
        if not v["sig"].startswith("C10|") and not v["sig"].startswith("C05|"):
            rep.add(v["sig"], v["detail"], {"engine": "misc", "mode": "c17", "tier": tier, "input": v["case"]}, v["count"])
    rep.coverage = {"evaluations": d["done"], "distinct_nontrivial": d["done"],
                    "rule": "for each capacity limit L (parameter description 255, parameter/group name 127, dimension entry 255, string length 255, string count 255, points 255, channels 255, "
                            "frames 32767, 16-bit integer extremes, parameter blocks 255, record next-offset 65535) content built through the API at the signed boundary of the carrying field (127|128, 32767|32768), at L-1, L, L+1 and far beyond, alone (quick) and in all "
                            "pairs (thorough; pairs with > 10^7 points are not built); at or below L: save, reload, compare; above L: save must throw or the reload must equal the saved object; "
                            "a failing pair that contains a failing single is attributed to that single. The last-frame-number limit 65535 is not reachable through the API (first frame is always 1) "
                            "and is covered on the file side by C12's header sweep",
                    "exhaustive": d["done"] >= d["cases"], "outcomes": d["outcomes"], "cases": d["cases"], "single_cases": d["single_cases"], "pair_cases": d["pair_cases"],
                    "pair_violations_explained_by_a_failing_single": d["pair_violations_explained_by_a_failing_single"], "samples": d["samples"]}
    return rep.finish()


# ---------------------------------------------------------------------------------------------- C18
def check_c18(tier, deadline):
    rep = Report("C18", tier, "model_checking")
    bdir = build("sched", ("drv_sched",))
    sc = scratch_dir("c18"); out = os.path.join(sc, "out.json")
    cmd = [os.path.join(bdir, "drv_sched"), "--tier", tier, "--workers", str(WORKERS), "--deadline", str(max(deadline * 0.7, 240 if tier == "quick" else 0)), "--scratch", sc, "--out", out]
    r = sh(cmd, capture_output=True, text=True)
    if r.returncode != 0 or not os.path.exists(out):
        log("driver failed", " ".join(cmd), r.stdout[-1000:], r.stderr[-1000:]); raise SystemExit(3)
    d = json.load(open(out)); shutil.rmtree(sc, ignore_errors=True)
    log(f"[sched] schedules={d['schedules']} done={d['done']} by_preemptions={d['by_preemptions']} crashes={d['crashes_total']} {d['wall_s']}s")
    base = {"engine": "sched", "tier": tier}
    for v in d["violations"]:
        rep.add(v["sig"], "a thread's observations differ from the same body run alone: " + v["detail"], dict(base, input=v["schedule"]), v["count"])
    for c in d["crashes"]:
        rep.add("crash/" + c["kind"], "execution died under schedule " + c["schedule"], dict(base, input=c["schedule"]))
    # free-running pass under ThreadSanitizer (a cooperative scheduler's hand-offs are happens-before edges that would blind the detector)
    tdir = build("tsan", ("drv_sched",))
    sc2 = scratch_dir("c18tsan"); out2 = os.path.join(sc2, "out.json"); reps = 20 if tier == "quick" else 200
    env = dict(os.environ); env["TSAN_OPTIONS"] = "halt_on_error=0:report_signal_unsafe=0:exitcode=0:die_after_fork=0:log_path=" + os.path.join(sc2, "tsan")
    r2 = sh([os.path.join(tdir, "drv_sched"), "--tier", tier, "--reps", str(reps), "--scratch", sc2, "--out", out2], env=env, capture_output=True, text=True)
    free = json.load(open(out2)) if os.path.exists(out2) else None
    reports = []
    for lf in glob.glob(os.path.join(sc2, "tsan.*")):
        txt = open(lf, errors="replace").read()
        for m in re.finditer(r"WARNING: ThreadSanitizer: ([^\n(]+).*?(?=WARNING: ThreadSanitizer|\Z)", txt, re.S):
            blk = m.group(0); fn = re.search(r"#\d+ (ezc3d::[A-Za-z0-9_:~]+)", blk)
            reports.append((m.group(1).strip(), fn.group(1) if fn else "?", blk[:700]))
    for kind, fn, blk in reports:
        rep.add(f"tsan/{kind}/{fn}", blk, dict(base, input="free-running pass, see report"))
    if free is None:
        rep.add("harness/tsan_pass_failed", (r2.stdout + r2.stderr)[-600:], dict(base, input="tsan"))
    shutil.rmtree(sc2, ignore_errors=True)
    nthreads = sum(len(g["fine_points"]) for g in d["groups"])
    rep.coverage = {"states": d["done"], "transitions": sum(sum(g["fine_points"]) for g in d["groups"]), "traces_validated_against_impl": d["done"],
                    "evaluations": d["done"], "distinct_nontrivial": d["done"],
                    "rule": "states = complete executions (schedules) of 2 (thorough: also 3) threads using independent objects under a cooperative scheduler; transitions = scheduling points per group "
                            "(every entry/exit of a library function + harness op boundaries + interposed libc I/O calls). Enumerated exhaustively: all thread orders (0 preemptions), one preemption at "
                            "every fine point of every thread, two preemptions over all pairs of coarse points (quick: same-body groups only); every schedule is a real execution; a diverging schedule is "
                            "re-run before it is reported",
                    "exhaustive": d["done"] >= d["schedules"], "schedules_by_preemptions": d["by_preemptions"], "groups": d["groups"], "samples": d["samples"],
                    "tsan_free_run": free, "tsan_reports": len(reports)}
    rep.assumptions = ["interleavings inside one library function between two std calls and weak-memory effects are not enumerated; the ThreadSanitizer free-running pass covers them only probabilistically",
                       "scheduler hand-off by futex; scheduling points from -finstrument-functions on /repo/src only"]
    return rep.finish()


# ---------------------------------------------------------------------------------------------- C19
CONFIGS = [(bt, sh_) for bt in ("Debug", "RelWithDebInfo", "Release") for sh_ in ("TRUE", "FALSE")]


def check_c19(tier, deadline):
    rep = Report("C19", tier, "exploration")
    plain = build("plain", ("drv_api", "drv_file", "drv_misc", "drv_static"))
    root = f"/tmp/ezc3d-c19.{os.getpid()}"
    shutil.rmtree(root, ignore_errors=True); os.makedirs(root)

    def cfg_build(cfg):
        bt, shared = cfg
        bdir = os.path.join(root, f"{bt}-{'shared' if shared == 'TRUE' else 'static'}")
        r = sh(["cmake", "-S", REPO, "-B", bdir, "-G", "Ninja", f"-DCMAKE_BUILD_TYPE={bt}", f"-DBUILD_SHARED_LIBS={shared}", "-DBUILD_EXAMPLE=OFF", "-DBUILD_TESTS=OFF", "-DBUILD_DOC=OFF"], capture_output=True, text=True)
        if r.returncode == 0:
            r = sh(["cmake", "--build", bdir, "-j", "4"], capture_output=True, text=True)
        if r.returncode != 0:
            return cfg, None, (r.stdout + r.stderr)[-1500:]
        libs = glob.glob(os.path.join(bdir, "libezc3d*"))
        lib = [l for l in libs if l.endswith(".so") or l.endswith(".a")]
        exes = {}
        for drv in ("drv_api", "drv_file", "drv_misc", "drv_static"):
            exe = os.path.join(bdir, drv)
            objs = [os.path.join(plain, f"{drv}_{drv}.o")]
            cmd = ["g++", "-o", exe] + objs + ([lib[0]] if lib[0].endswith(".a") else ["-L" + bdir, "-l" + os.path.basename(lib[0])[3:-3], "-Wl,-rpath," + bdir]) + ["-ldl", "-lpthread"]
            r2 = sh(cmd, capture_output=True, text=True)
            if r2.returncode != 0:
                return cfg, None, "link: " + r2.stderr[-1500:]
            exes[drv] = exe
        return cfg, exes, ""

    t0 = time.time()
    with ThreadPoolExecutor(max_workers=6) as ex:
        built = list(ex.map(cfg_build, CONFIGS))
    for cfg, exes, err in built:
        if exes is None:
            log(f"C19: build {cfg} failed: {err}"); shutil.rmtree(root, ignore_errors=True); raise SystemExit(3)
    log(f"[c19] six CMake builds + links in {time.time() - t0:.1f}s")
    corpora = [("drv_api", "build", ["--alphabet", "build", "--oracles", "T", "--depth", "3" if tier == "quick" else "4"]),
               ("drv_api", "mut", ["--alphabet", "mut", "--oracles", "T", "--depth", "4" if tier == "quick" else "5"]),
               ("drv_api", "params", ["--alphabet", "params", "--oracles", "T", "--depth", "2" if tier == "quick" else "3"]),
               ("drv_file", "c04", ["--mode", "c04", "--devs", "2" if tier == "quick" else "3"] + sum([["--vendor", os.path.join(REPO, v)] for v in VENDOR if os.path.exists(os.path.join(REPO, v))], [])),
               ("drv_file", "c12", ["--mode", "c12"]),
               ("drv_misc", "setters", ["--mode", "setters"]),
               ("drv_static", "static", [])]   # the same history run by a static object's constructor (before main) and by main
    lines_total = 0; per_corpus = []
    samples = []
    for drv, name, args in corpora:
        trs = {}
        def run_cfg(item):
            cfg, exes, _ = item
            tag = f"{cfg[0]}-{'shared' if cfg[1] == 'TRUE' else 'static'}"
            sc = os.path.join(root, "run-" + tag + "-" + name); os.makedirs(sc, exist_ok=True)
            tr = os.path.join(sc, "transcript.txt")
            r = sh([exes[drv]] + args + ["--tier", tier, "--workers", "3", "--scratch", sc, "--out", os.path.join(sc, "out.json"), "--transcript", tr], capture_output=True, text=True)
            body = open(tr, errors="replace").read().splitlines() if os.path.exists(tr) else ["<no transcript: " + (r.stdout + r.stderr)[-300:] + ">"]
            dg = os.path.join(sc, "digests.txt")
            if os.path.exists(dg):
                body += sorted(open(dg, errors="replace").read().splitlines())
            shutil.rmtree(sc, ignore_errors=True)
            return tag, body
        with ThreadPoolExecutor(max_workers=6) as ex:
            for tag, body in ex.map(run_cfg, built):
                trs[tag] = body
        ref_tag = "RelWithDebInfo-shared"; ref = trs[ref_tag]
        lines_total += len(ref); per_corpus.append({"corpus": name, "driver": drv, "transcript_lines": len(ref)})
        if ref:
            samples.append(f"{name}: {ref[len(ref) // 2][:160]}")
        if name == "static":
            for tag, body in trs.items():
                if "same -> yes" not in body:
                    rep.add(f"static_ctor_vs_main_differ/{tag}", "the same calls made by a static object's constructor and by main() give different results: " + " | ".join(body)[:600],
                            {"engine": "c19", "corpus": name, "builds": [tag], "transcript": body})
        for tag, body in trs.items():
            if body == ref:
                continue
            n = next((i for i in range(min(len(body), len(ref))) if body[i] != ref[i]), min(len(body), len(ref)))
            a = ref[n] if n < len(ref) else "<end>"; b = body[n] if n < len(body) else "<end>"
            field = "outcome" if a.split(" -> ")[0] == b.split(" -> ")[0] and " -> " in a else "value"
            rep.add(f"transcripts_differ/{name}/{ref_tag}_vs_{tag}/{field}", f"line {n}: {ref_tag}: {a[:300]} || {tag}: {b[:300]}",
                    {"engine": "c19", "corpus": name, "builds": [ref_tag, tag], "line": n, "reference_line": a, "other_line": b})
    shutil.rmtree(root, ignore_errors=True)
    rep.coverage = {"evaluations": lines_total * len(CONFIGS), "distinct_nontrivial": lines_total,
                    "rule": "the project's own CMakeLists builds the library in the six supported configurations (Debug/-O0, RelWithDebInfo/-O2, Release/-O3 x shared/static); the same deterministic drivers "
                            "(API state-space exploration emitting every transition with its outcome class and successor state hash plus the saved-file digest of every state; file corpus through 3 load/save "
                            "generations emitting loaded-state and file hashes; all integer/float pattern files; one construction history executed by the constructor of a static object, i.e. before main(), and again by main()) "
                            "run against each build; the transcripts must be identical line by line",
                    "exhaustive": True, "configurations": [f"{a}/{'shared' if b == 'TRUE' else 'static'}" for a, b in CONFIGS], "corpora": per_corpus, "samples": samples or ["<empty>"]}
    rep.assumptions = ["the harness objects are compiled once (library code lives entirely in the .cpp files, the public headers hold declarations only), each configuration's library is linked in"]
    return rep.finish()


# ---------------------------------------------------------------------------------------------- C13
C13_RUNS = [("mut", "C13", 4, 6), ("frames", "C13", 4, 6), ("c07", "C13", 4, 6), ("params", "C13", 2, 3), ("lookup", "C13,C11", 3, 5), ("build", "C13,C01,C03", 3, 4), ("loaded", "C13", 3, 5), ("wild", "C13", 3, 4)]


def check_c13(tier, deadline):
    rep = Report("C13", tier, "model_checking")
    runs = []
    for alphabet, oracles, dq, dt in C13_RUNS:
        d = run_api("asan", alphabet, oracles, dq if tier == "quick" else dt, tier, max(deadline / len(C13_RUNS), 90 if tier == "quick" else 0), hang=60)
        absorb_api(rep, d, set(), crash_prop="C13", san_prop="C13")
        d["probes"]["san_reports_total"] = d["san_reports_total"]
        runs.append(d)
        shutil.rmtree(d["_scratch"], ignore_errors=True)
    # engine B under the sanitizer: every generated file (<= 2 / 3 deviations) and the shipped files through load -> save -> load -> save
    fd = run_file("asan", "c04", 2 if tier == "quick" else 3, tier, deadline / 4, tag="c13file")
    absorb_file(rep, fd, set(), crash_prop="C13")
    # string-length sweep under the sanitizer: the residue sweep builds, saves and reloads objects whose names/descriptions/values take every length 0..255
    bdir = build("asan", ("drv_misc",))
    sc = scratch_dir("c13sweep"); out = os.path.join(sc, "out.json")
    env = dict(os.environ); env.update(ASAN_ENV); env["ASAN_OPTIONS"] = env["ASAN_OPTIONS"].replace("halt_on_error=0", "halt_on_error=1")
    r = sh([os.path.join(bdir, "drv_misc"), "--mode", "residue", "--tier", tier, "--scratch", sc, "--out", out, "--workers", str(WORKERS)], env=env, capture_output=True, text=True)
    sweep = json.load(open(out)) if os.path.exists(out) else {"done": 0, "crashed": ["<driver failed>"], "cases": 0}
    shutil.rmtree(sc, ignore_errors=True)
    if "AddressSanitizer" in r.stderr or "runtime error:" in r.stderr:
        for blk in r.stderr.split("==ERROR: ")[1:]:
            rep.add(san_signature(("ERROR: " + blk).replace("\n", "|")), ("ERROR: " + blk)[:900], {"engine": "misc", "mode": "residue", "tier": tier, "flavour": "asan", "input": (sweep["crashed"] or ["?"])[0]})
    elif sweep["crashed"]:
        rep.add("crash/residue_sweep_under_asan", "worker died on " + sweep["crashed"][0] + " :: " + r.stderr[-400:], {"engine": "misc", "mode": "residue", "tier": tier, "flavour": "asan", "input": sweep["crashed"][0]})
    # the typed setters' (type, dimensions, size) table, incl. reshapes through the parameter's own storage with heap-allocated strings
    sc = scratch_dir("c13setters"); out = os.path.join(sc, "out.json")
    r = sh([os.path.join(bdir, "drv_misc"), "--mode", "setters", "--tier", tier, "--scratch", sc, "--out", out, "--workers", str(WORKERS)], env=env, capture_output=True, text=True)
    setters = json.load(open(out)) if os.path.exists(out) else None
    shutil.rmtree(sc, ignore_errors=True)
    if "AddressSanitizer" in r.stderr or "runtime error:" in r.stderr:
        for blk in r.stderr.split("==ERROR: ")[1:]:
            rep.add(san_signature(("ERROR: " + blk).replace("\n", "|")), ("ERROR: " + blk)[:900], {"engine": "misc", "mode": "setters", "tier": tier, "flavour": "asan", "input": "setter table"})
    elif setters is None:
        rep.add("crash/setter_table_under_asan", "driver died :: " + r.stderr[-400:], {"engine": "misc", "mode": "setters", "tier": tier, "flavour": "asan", "input": "setter table"})
    rep.coverage = cov_from_api(runs)
    rep.coverage["setter_table_under_asan"] = {"evaluations": setters["evaluations"] if setters else 0}
    rep.coverage["files_under_asan"] = {k: fd[k] for k in ("mode", "devs", "cases", "done", "outcomes", "crashes_total")}
    rep.coverage["evaluations"] += fd["done"]
    rep.coverage["length_sweep_under_asan"] = {"objects": sweep["done"], "of": sweep["cases"]}
    rep.coverage["standalone_containers_under_asan"] = absorb_containers(rep, "C13", tier, flavour="asan")
    rep.coverage["sanitizer"] = "g++ -fsanitize=address,undefined -D_GLIBCXX_ASSERTIONS; recoverable ASan errors are attributed to the transition that raised them, fatal ones through the worker breadcrumb"
    rep.assumptions = ["memory errors that ASan/UBSan(bounds,vptr)/libstdc++ assertions cannot see (e.g. intra-object overflow) are out of reach",
                       "every distinct state is additionally printed, saved, reloaded and destroyed under the sanitizer"]
    return rep.finish()


# ---------------------------------------------------------------------------------------------- C14
def read_digests(path):
    out = {}
    if os.path.exists(path):
        for line in open(path, errors="replace"):
            line = line.rstrip("\n")
            if not line:
                continue
            kd, _, hist = line.partition("\t")
            k, _, dg = kd.partition(" ")
            out[k] = (dg, hist)
    return out


def byte_region(off, size):
    if off < 512:
        if 396 <= off < 468:
            return "header.eventLabels"
        return f"header.word{off // 2 + 1}"
    return "body"


def save_bytes(alphabet, tier, history, env_extra, tag):
    bdir = build("plain", ("drv_api",))
    sc = scratch_dir(tag)
    f = os.path.join(sc, "saved.c3d")
    env = dict(os.environ); env.update(env_extra)
    sh([os.path.join(bdir, "drv_api"), "--alphabet", alphabet, "--tier", tier, "--replay", history, "--dump", "--savefile", f, "--scratch", sc], env=env, capture_output=True)
    b = open(f, "rb").read() if os.path.exists(f) else b""
    shutil.rmtree(sc, ignore_errors=True)
    return b


def check_c14(tier, deadline):
    rep = Report("C14", tier, "model_checking")
    depth = 4 if tier == "quick" else 6
    # the first process also runs the "same call after an intermediate save" twin on every transition up to depth 3 / 4; the perturbed ones only need the per-state file digests
    envs = [("unset", {"VF_TWIN_DEPTH": "3" if tier == "quick" else "4"}), ("0x55", {"MALLOC_PERTURB_": "85", "VF_NO_TWIN": "1"}), ("0xAA", {"MALLOC_PERTURB_": "170", "VF_NO_TWIN": "1"})]
    runs, digs = [], []
    for tag, env in envs:
        d = run_api("plain", "build", "C14", depth, tier, max(deadline / 5, 90 if tier == "quick" else 0), env_extra=env, tag="c14" + tag)
        absorb_api(rep, d, {"C14"}, crash_prop="C14")
        digs.append(read_digests(os.path.join(d["_scratch"], "digests.txt")))
        runs.append(d)
        shutil.rmtree(d["_scratch"], ignore_errors=True)
    joined = differing = 0
    base = {"engine": "api", "alphabet": "build", "oracles": "C14", "tier": tier, "flavour": "plain"}
    classified = {}
    for k, (dg0, hist) in digs[0].items():
        others = [dd.get(k) for dd in digs[1:]]
        if any(o is None for o in others):
            if any(r["deadline_hit"] or r["capped"] for r in runs):
                continue   # a run that was cut short simply did not get there
            rep.add("harness/state_missing_in_perturbed_run", "state key not reached under a different MALLOC_PERTURB_ (replay non-determinism)", dict(base, history=hist))
            continue
        joined += 1
        if any(o[0] != dg0 for o in others):
            differing += 1
            if len(classified) < 40 or True:
                # classify by byte region (replay the shortest witnesses only: cheap)
                b1 = save_bytes("build", tier, hist, envs[1][1], "c14r1") if differing <= 60 else None
                b2 = save_bytes("build", tier, hist, envs[2][1], "c14r2") if differing <= 60 else None
                if b1 is None:
                    continue
                regions = sorted({byte_region(i, len(b1)) for i in range(min(len(b1), len(b2))) if b1[i] != b2[i]} | ({"length"} if len(b1) != len(b2) else set()))
                offs = [i for i in range(min(len(b1), len(b2))) if b1[i] != b2[i]]
                sig = "bytes_depend_on_heap_garbage/" + "+".join(regions)
                rep.add(sig, f"saved file differs between MALLOC_PERTURB_=0x55 and 0xAA in {len(offs)} byte(s), first offsets {offs[:8]}", dict(base, history=hist, env="MALLOC_PERTURB_=85 vs 170"))
    # memcheck: the same exploration (shallower) entirely under valgrind; the probe counts memcheck errors around each save
    vdepth = 1 if tier == "quick" else 2
    vg = None
    if shutil.which("valgrind"):
        bdir = build("plain", ("drv_api",))
        sc = scratch_dir("c14vg")
        out = os.path.join(sc, "out.json")
        cmd = ["valgrind", "-q", "--error-exitcode=0", "--log-file=" + os.path.join(sc, "vg.%p.log"), os.path.join(bdir, "drv_api"), "--alphabet", "build", "--oracles", "C14",
               "--depth", str(vdepth), "--tier", tier, "--workers", str(WORKERS), "--scratch", sc, "--out", out, "--hang", "600", "--deadline", str(deadline / 3)]
        t0 = time.time()
        r = sh(cmd, capture_output=True, text=True)
        if r.returncode == 0 and os.path.exists(out):
            vg = json.load(open(out)); vg["_scratch"] = sc; vg["_cmd"] = cmd; vg["_flavour"] = "plain"
            log(f"[api] memcheck build/C14 depth<={vdepth}: states={vg['states']} transitions={vg['transitions']} {time.time() - t0:.1f}s")
            absorb_api(rep, vg, {"C14"}, crash_prop="C14")
        else:
            rep.notes.append("memcheck pass failed to run: " + r.stderr[-300:])
        shutil.rmtree(sc, ignore_errors=True)
    # loaded objects (every generated file with <= 1 (quick) / 2 (thorough) deviations + the shipped files): same three heap perturbations, joined on the case
    ftr = []
    for tag, env in envs:
        tp = f"/dev/shm/ezc3d-verif.{os.getpid()}.c14tr.{tag}"
        fd = run_file("plain", "c14", 1 if tier == "quick" else 2, tier, deadline / 6, tag="c14f" + tag, env_extra=env, transcript=tp)
        absorb_file(rep, fd, {"C14"}, crash_prop="C14")
        ftr.append((fd, open(tp, errors="replace").read().splitlines() if os.path.exists(tp) else []))
        if os.path.exists(tp):
            os.remove(tp)
    loaded_joined = loaded_diff = 0
    for i, line in enumerate(ftr[0][1]):
        others = [t[1][i] if i < len(t[1]) else None for t in ftr[1:]]
        if not line:
            continue
        loaded_joined += 1
        if any(o != line for o in others):
            loaded_diff += 1
            case = line.split("\t")[1] if "\t" in line else "?"
            rep.add("bytes_depend_on_heap_garbage/loaded-object/" + case_class(case), "the file saved from a loaded object differs between heap perturbations: " + line[:200] + " || " + str(others[0])[:200],
                    {"engine": "file", "mode": "c14", "tier": tier, "flavour": "plain", "input": case})
    cov = cov_from_api(runs[:1])
    cov["loaded_objects"] = {"cases": ftr[0][0]["cases"], "joined_across_processes": loaded_joined, "with_differing_bytes": loaded_diff, "outcomes": ftr[0][0]["outcomes"]}
    cov["evaluations"] += sum(t[0]["done"] for t in ftr)
    cov["perturbation_runs"] = [{"MALLOC_PERTURB_": t, "states": d["states"], "saves": d["probes"]["c14"]} for (t, _), d in zip(envs, runs)]
    cov["states_joined_across_processes"] = joined
    cov["states_with_differing_bytes"] = differing
    cov["memcheck"] = {"depth": vdepth, "states": vg["states"], "saves_under_memcheck": vg["probes"]["c14"]} if vg else None
    cov["exhaustive"] = cov["exhaustive"] and all(d["states"] == runs[0]["states"] for d in runs)
    rep.coverage = cov
    rep.coverage["standalone_containers"] = absorb_containers(rep, "C14", tier)   # elements created by an indexed set past the end hold defined values
    rep.assumptions = ["freshly allocated heap bytes differ between MALLOC_PERTURB_ 0x55 and 0xAA, so a byte copied from uninitialised heap differs between the runs; stack-sourced garbage is visible to the memcheck pass only"]
    return rep.finish()


# ---------------------------------------------------------------------------------------------- main
def do_replay(path):
    r = json.load(open(path))
    if r.get("engine") == "api":
        bdir = build(r.get("flavour", "plain"), ("drv_api",))
        sc = scratch_dir("replay")
        env = dict(os.environ)
        if r.get("flavour") == "asan":
            env.update(ASAN_ENV)
        cmd = [os.path.join(bdir, "drv_api"), "--alphabet", r["alphabet"], "--oracles", r["oracles"], "--tier", r.get("tier", "quick"), "--replay", r["history"], "--scratch", sc]
        print("replaying:", " ".join(cmd))
        print("expected signature:", r.get("signature"))
        rc = sh(cmd, env=env).returncode
        shutil.rmtree(sc, ignore_errors=True)
        return rc
    if r.get("engine") == "file":
        bdir = build(r.get("flavour", "plain"), ("drv_file",))
        sc = scratch_dir("replay")
        cmd = [os.path.join(bdir, "drv_file"), "--mode", r["mode"], "--tier", r.get("tier", "quick"), "--case", r["input"], "--scratch", sc, "--emit", os.path.join(sc, "case.c3d")]
        print("replaying:", " ".join(cmd)); print("expected signature:", r.get("signature"))
        rc = sh(cmd).returncode
        shutil.rmtree(sc, ignore_errors=True)
        return rc
    if r.get("engine") == "damage":
        bdir = build(r.get("flavour", "plain"), ("drv_damage",))
        sc = scratch_dir("replay")
        cmd = [os.path.join(bdir, "drv_damage"), "--tier", r.get("tier", "quick"), "--case", r["input"], "--scratch", sc]
        print("replaying:", " ".join(cmd)); print("expected signature:", r.get("signature"))
        rc = sh(cmd).returncode
        shutil.rmtree(sc, ignore_errors=True)
        return rc
    if r.get("engine") == "misc":
        bdir = build("plain", ("drv_misc",))
        sc = scratch_dir("replay")
        cmd = [os.path.join(bdir, "drv_misc"), "--mode", r["mode"], "--tier", r.get("tier", "quick"), "--case", r["input"], "--scratch", sc]
        print("replaying:", " ".join(cmd)); print("expected signature:", r.get("signature"))
        rc = sh(cmd).returncode
        shutil.rmtree(sc, ignore_errors=True)
        return rc
    if r.get("engine") == "sched":
        bdir = build("sched", ("drv_sched",))
        sc = scratch_dir("replay")
        cmd = [os.path.join(bdir, "drv_sched"), "--tier", r.get("tier", "quick"), "--schedule", r["input"], "--scratch", sc]
        print("replaying:", " ".join(cmd)); print("expected signature:", r.get("signature"))
        rc = sh(cmd).returncode
        shutil.rmtree(sc, ignore_errors=True)
        return rc
    if r.get("engine") == "fault":
        bdir = build("plain", ("drv_fault",))
        sc = scratch_dir("replay")
        cmd = [os.path.join(bdir, "drv_fault"), "--tier", r.get("tier", "quick"), "--plan", r["input"], "--scratch", sc]
        print("replaying:", " ".join(cmd)); print("expected signature:", r.get("signature"))
        rc = sh(cmd).returncode
        shutil.rmtree(sc, ignore_errors=True)
        return rc
    if r.get("engine") == "containers":   # the stand-alone container exploration is small: it is re-run whole, the recorded op history names the place
        d = run_containers(r.get("tier", "quick"), r.get("flavour", "plain"))
        print("expected signature:", r.get("signature"), "\nrecorded op history:", r.get("input"))
        hits = [v for v in d["violations"] if ("standalone/" + v["sig"]) == r.get("signature") or v["sig"] == r.get("signature")]
        for v in hits:
            print("reproduced:", v["sig"], "::", v["detail"], "::", v["history"])
        return 1 if hits else 0
    if r.get("engine") == "c19":
        print("C19 findings compare whole builds: re-run  python3 run.py check C19 --tier", r.get("tier", "quick"), "\nrecorded:", json.dumps({k: r.get(k) for k in ("corpus", "builds", "line", "reference_line", "other_line")})[:1500])
        return 1
    print("unknown replay engine", r.get("engine"))
    return 2


def main():
    ap = argparse.ArgumentParser()
    sub = ap.add_subparsers(dest="cmd")
    c = sub.add_parser("check"); c.add_argument("prop"); c.add_argument("--tier", default=os.environ.get("VERIF_TIER", "quick"))
    r = sub.add_parser("replay"); r.add_argument("path")
    b = sub.add_parser("build"); b.add_argument("flavours", nargs="*")
    a = ap.parse_args()
    if a.cmd == "build":
        per = {"plain": ("drv_api", "drv_file", "drv_fault", "drv_damage", "drv_misc", "drv_containers", "drv_static"), "asan": ("drv_api", "drv_file", "drv_damage", "drv_misc", "drv_containers"), "sched": ("drv_sched",), "tsan": ("drv_sched",)}
        for f in a.flavours or ["plain"]:
            build(f, per.get(f, ("drv_api",)))
        return 0
    if a.cmd == "replay":
        return do_replay(a.path)
    if a.cmd == "check":
        tier = a.tier
        deadline = float(os.environ.get("VERIF_DEADLINE", "150" if tier == "quick" else "900"))
        if a.prop in API_CHECKS:
            return check_api(a.prop, tier, deadline)
        if a.prop in FILE_CHECKS:
            return check_file(a.prop, tier, deadline)
        if a.prop == "C14":
            return check_c14(tier, deadline)
        if a.prop == "C15":
            return check_c15(tier, deadline)
        if a.prop == "C16":
            return check_c16(tier, deadline)
        if a.prop == "C17":
            return check_c17(tier, deadline)
        if a.prop == "C18":
            return check_c18(tier, deadline)
        if a.prop == "C19":
            return check_c19(tier, deadline)
        if a.prop == "C13":
            return check_c13(tier, deadline)
        print("no check for", a.prop)
        return 2
    ap.print_help()
    return 2


if __name__ == "__main__":
    sys.exit(main())
