// drv_file.cpp — engine B: deviation-bounded enumeration of well-formed C3D files (independent encoder) executed
// against the real loader / writer, compared with the independent decoder.
//   drv_file --mode c02|c04|c12 --devs K --tier T --scratch DIR --out FILE [--workers N] [--deadline S]
//   drv_file --mode c02|c04 --case "points=3;zeros=7" [--emit FILE]        (single case, verbose)
//   drv_file --mode corpus --devs K --emit-dir DIR                          (write the files; used by C16 / C19)
#include "probes.h"
#include "refc3d.h"
#include "genfile.h"
#include "c03.h"
#include <sys/mman.h>
#include <sys/wait.h>
#include <chrono>

using namespace vf;

std::string vf::takeSanitizerReport() { return std::string(); }

static double nowS() { return std::chrono::duration<double>(std::chrono::steady_clock::now().time_since_epoch()).count(); }
static bool writeAll(const std::string& p, const std::string& b) { FILE* f = fopen(p.c_str(), "wb"); if (!f) return false; fwrite(b.data(), 1, b.size(), f); fclose(f); return true; }
static std::string trimNulSp(std::string s) { while (!s.empty() && (s.back() == ' ' || s.back() == '\0')) s.pop_back(); return s; }

// ---- C02: loaded object vs reference decode ---------------------------------------------------------
static void compareWithRef(const OSnap& o, const ref::File& F, std::vector<std::string>& diffs) {
    auto add = [&](const std::string& d) { if (std::find(diffs.begin(), diffs.end(), d) == diffs.end()) diffs.push_back(d); };
    if (o.h.nPoints != F.nPoints) add("header.points");
    if (o.h.nAnalogs != F.channels()) add("header.channels");
    if (o.h.subPerFrame != F.spf && F.channels() > 0) add("header.subframes");
    if (o.h.first + 1 != F.first) add("header.first_frame");
    if (F.nFrames > 0 && o.h.last + 1 != F.last) add("header.last_frame");
    if (F.dataComplete && o.h.nFrames != F.nFrames && (F.nPoints > 0 || F.channels() > 0)) add("header.frames");
    if (o.h.rate != F.rateBits) add("header.rate");
    if (o.h.nEvents != F.nEvents) add("header.event_count");
    for (int i = 0; i < 18; ++i) { if (o.h.evTimes.size() != 18 || o.h.evTimes[(size_t)i] != F.evTimes[i]) add("header.event_times"); if (o.h.evLabels.size() != 18 || trimNulSp(o.h.evLabels[(size_t)i]) != trimNulSp(F.evLabels[i])) add("header.event_labels"); }
    for (int i = 0; i < 9; ++i) if (o.h.evDisp.size() != 9 || o.h.evDisp[(size_t)i] != (size_t)(F.evDisp[2 * i] | (F.evDisp[2 * i + 1] << 8))) add("header.event_flags");
    size_t namedGroups = 0; for (auto& g : o.groups) if (!g.name.empty()) namedGroups++;
    size_t fileGroups = 0; for (auto& r : F.recs) if (r.isGroup) fileGroups++;
    if (namedGroups != fileGroups) add("groups.count");
    for (auto& r : F.recs) {
        if (r.id < 1 || (size_t)r.id > o.groups.size()) { add("group.missing"); continue; }
        const GSnap& g = o.groups[(size_t)r.id - 1];
        if (r.isGroup) {
            if (g.name != r.name) add("group.name"); if (g.desc != r.desc) add(r.desc.size() >= 128 ? "group.description/len>=128" : "group.description"); if (g.locked != r.locked) add("group.lock");
            size_t np = 0; for (auto& q : F.recs) if (!q.isGroup && q.id == r.id) np++; if (np != g.params.size()) add("group.param_count");
            continue;
        }
        const PSnap* p = g.find(r.name); if (!p) { add("param.missing"); continue; }
        std::string tn = r.type == -1 ? "CHAR" : r.type == 1 ? "BYTE" : r.type == 2 ? "INT" : "FLOAT";
        if (p->type != r.type) { add("param.type/" + tn); continue; }
        if (p->desc != r.desc) add(r.desc.size() >= 128 ? "param.description/len>=128" : "param.description");
        if (p->locked != r.locked) add("param.lock");
        std::vector<size_t> fd; for (int d : r.dims) fd.push_back((size_t)d);
        bool scalar = r.dims.empty() && p->dims.size() == 1 && p->dims[0] == 1;
        if (p->dims != fd && !scalar) add("param." + tn + ".dims/" + S(r.dims.size()) + "D");
        if (r.type == 1 || r.type == 2) { if (p->ints != r.ints()) add("param." + tn + ".values"); }
        else if (r.type == 4) { if (p->floats != r.floats()) add("param.FLOAT.values"); }
        else {
            std::vector<std::string> a = r.strings(true), b; for (auto& s : p->strs) b.push_back(rtrim(s));
            if (r.elemCount() == 0 && !(r.dims.size() >= 2 && r.dims[0] == 0 && r.elemCount() == 0 && r.dims.size() > 1 && [&] { size_t c = 1; for (size_t i = 1; i < r.dims.size(); ++i) c *= (size_t)r.dims[i]; return c > 0; }())) a.clear();
            if (a != b) add("param.CHAR.values/" + S(r.dims.size()) + "D");
        }
    }
    if (F.frames.empty() && F.nFrames == 0 && !F.dataComplete) return;   // truncated vendor file: data not comparable
    if (o.frames.size() != F.nFrames) { add("frames.count"); return; }
    std::vector<std::string> labels; { const ref::Rec* L = F.param("POINT", "LABELS"); if (L) labels = L->strings(true); }
    std::vector<std::string> alabels; { const ref::Rec* L = F.param("ANALOG", "LABELS"); if (L) alabels = L->strings(true); }
    size_t ch = F.channels();
    for (size_t f = 0; f < F.nFrames && f < F.frames.size(); ++f) {
        const FrSnap& fr = o.frames[f];
        if (fr.pts.size() != F.nPoints) { add("frame.point_count"); continue; }
        for (size_t p = 0; p < F.nPoints; ++p) {
            for (int k = 0; k < 3; ++k) if (fr.pts[p].v[k] != F.frames[f][4 * p + (size_t)k]) add("point.xyz");
            if (fr.pts[p].v[3] != F.frames[f][4 * p + 3]) add("point.residual");
            if (p < labels.size() && fr.pts[p].name != labels[p]) add("point.name");
        }
        size_t nonEmpty = 0; for (auto& s : fr.subs) if (!s.empty()) nonEmpty++;
        if (ch == 0) { if (nonEmpty) add("analog.unexpected_samples"); continue; }
        if (fr.subs.size() != F.spf) { add("analog.subframe_count"); continue; }
        for (size_t s = 0; s < F.spf; ++s) {
            if (fr.subs[s].size() != ch) { add("analog.channel_count"); break; }
            for (size_t c = 0; c < ch; ++c) { if (fr.subs[s][c].v != F.frames[f][4 * F.nPoints + s * ch + c]) add("analog.sample"); if (c < alabels.size() && fr.subs[s][c].name != alabels[c]) add("channel.name"); }
        }
    }
}

// ---- C12: pattern files ----------------------------------------------------------------------------
static uint32_t fpat(int i) {   // 2048 patterns: 256 exponents x 2 signs x 4 mantissas
    static const uint32_t mant[4] = {0, 1, 0x400000, 0x7FFFFF}; uint32_t e = (uint32_t)(i & 255), sgn = (uint32_t)((i >> 8) & 1), m = mant[(i >> 9) & 3];
    return (sgn << 31) | (e << 23) | m;
}
static std::vector<std::string> c12Cases(bool thorough) {
    std::vector<std::string> v; v.push_back("bytes");
    for (int k = 0; k < 4; ++k) v.push_back("int:" + std::to_string(k));
    for (const char* fld : {"points", "first", "last", "gap", "spf", "events"}) for (int val : {0, 1, 2, 127, 128, 255, 256, 32767, 32768, 65534, 65535}) {
        std::string f = fld;
        if (f == "points" && val > 1000) continue; if (f == "spf" && (val == 0 || val > 300)) continue; if (f == "first" && val == 0) continue; if (f == "events" && val > 18) continue;
        v.push_back(std::string("hdr:") + fld + "=" + std::to_string(val));
    }
    for (int r = 0; r < 4; ++r) v.push_back("fpoint:" + std::to_string(r));
    v.push_back("fanalog"); v.push_back("fparam");
    int step = thorough ? 1 : 8;
    for (int i = 0; i < 2048; i += 18 * step) v.push_back("fevent:" + std::to_string(i));
    for (int i = 0; i < 2048; i += 18 * step) for (int ne : {0, 2, 17}) v.push_back("fstale:" + std::to_string(i) + ":" + std::to_string(ne));   // all 18 event-time slots filled, only the first ne declared
    for (int i = 0; i < 2048; i += step) v.push_back("frate:" + std::to_string(i));
    // header rate and POINT:RATE that agree to 1e-4 Hz without being the same pattern (59.94 written by one program, 60000/1001 by another): both must be decoded and re-encoded as they are
    for (int k = 0; k < 12; ++k) v.push_back("hrate:" + std::to_string(k));
    // every pattern file again under other LAYOUTS of the same content (leading zero bytes shift every absolute offset, a later parameter block, another record order)
    std::vector<std::string> lay = thorough ? std::vector<std::string>{"zeros=7", "pblock=3;order=groupsReversed", "zeros=1", "zeros=512", "prologue=0000", "order=paramsFirst;ids=swapped", "padblocks=1", "zeros=3;pblock=3"} : std::vector<std::string>{"zeros=7", "pblock=3;order=groupsReversed"};
    size_t n = v.size(); for (auto& ly : lay) for (size_t i = 0; i < n; ++i) v.push_back(v[i] + "@" + ly);
    return v;
}
static bool c12ContentBase(const std::string& cs, gen::Content& c, gen::Layout& l);
static bool c12Content(const std::string& full, gen::Content& c, gen::Layout& l) {
    size_t at = full.find('@'); if (!c12ContentBase(full.substr(0, at), c, l)) return false;
    if (at != std::string::npos) { gen::Choice ch = gen::parseChoice(full.substr(at + 1)); for (auto& kv : ch) {
        if (kv.first == "zeros") l.zeros = atoi(kv.second.c_str()); else if (kv.first == "pblock") l.paramBlock = atoi(kv.second.c_str()); else if (kv.first == "order") l.order = kv.second; else if (kv.first == "ids") l.ids = kv.second;
        else if (kv.first == "prologue") l.zeroPrologue = kv.second == "0000"; else if (kv.first == "padblocks") c.padBlocks = atoi(kv.second.c_str()); else return false; } }
    return true;
}
static bool c12ContentBase(const std::string& cs, gen::Content& c, gen::Layout& l) {
    c = gen::Content(); l = gen::Layout(); c.extra = "custom"; c.nPoints = 1; c.nChans = 1; c.spf = 1; c.nFrames = 1; c.pointRate = 100; c.analogRate = 100;
    std::string kind = cs.substr(0, cs.find(':')); std::string arg = cs.find(':') == std::string::npos ? "" : cs.substr(cs.find(':') + 1);
    if (kind == "bytes") { std::vector<int> v; for (int i = 0; i < 256; ++i) v.push_back(i); c.customParams.push_back(gen::GParam::bytes("ALLB", {16, 16}, v)); return true; }
    if (kind == "int") { int k = atoi(arg.c_str()); std::vector<int> v; for (int i = 0; i < 16384; ++i) v.push_back(k * 16384 + i); c.customParams.push_back(gen::GParam::ints("ALLI", {128, 128}, v)); return true; }
    if (kind == "hdr") {
        std::string f = arg.substr(0, arg.find('=')); int val = atoi(arg.substr(arg.find('=') + 1).c_str());
        if (f == "points") { c.nPoints = val; c.labelsDelta = val > 2 ? 2 - val : 0; }
        else if (f == "first") { c.first = val; if (val + c.nFrames - 1 > 65535) c.nFrames = 1; if (val == 65535) c.nFrames = 1; }
        else if (f == "last") { if (val == 0) { c.first = 1; c.nFrames = 0; } else { c.nFrames = std::min(val, 3); c.first = val - c.nFrames + 1; } }
        else if (f == "gap") c.gapWord = val;
        else if (f == "spf") { c.spf = val; c.analogRate = 100.f * (float)val; }
        else if (f == "events") c.nEvents = val;
        return true;
    }
    if (kind == "fpoint") { int r = atoi(arg.c_str()); c.nPoints = 128; c.nFrames = 4; c.labelsDelta = -126; c.ptFn = [r](int f, int p, int k) { return fpat((f * 512 + p * 4 + ((k + r) & 3)) & 2047); }; return true; }
    if (kind == "fanalog") { c.nPoints = 0; c.nChans = 1; c.spf = 16; c.analogRate = 1600; c.nFrames = 128; c.anFn = [](int f, int s, int) { return fpat(f * 16 + s); }; return true; }
    if (kind == "fparam") { std::vector<uint32_t> v; for (int i = 0; i < 2048; ++i) v.push_back(fpat(i)); c.customParams.push_back(gen::GParam::floats("ALLF", {128, 16}, v)); return true; }
    if (kind == "fstale") { int i0 = atoi(arg.c_str()); c.nEvents = atoi(arg.substr(arg.find(':') + 1).c_str()); for (int i = 0; i < 18; ++i) c.eventTimes.push_back(fpat((i0 + i) & 2047)); return true; }
    if (kind == "fevent") { int i0 = atoi(arg.c_str()); c.nEvents = 18; for (int i = 0; i < 18; ++i) c.eventTimes.push_back(fpat((i0 + i) & 2047)); return true; }
    if (kind == "hrate") {   // pairs (header, parameter) a few ulp apart; kept only if they agree under the library's documented 1e-4 truncation
        static const float base[6] = {59.94f, 23.976f, 29.97f, 119.88f, 100.0f, 0.5f}; int k = atoi(arg.c_str()); float h = base[k % 6]; uint32_t hb = gen::f2b(h), pb = hb + (k < 6 ? 16u : 2u); float pf; memcpy(&pf, &pb, 4);
        if ((int)(pf * 10000.0f) != (int)(h * 10000.0f)) return false;
        c.haveHeaderRateBits = true; c.headerRateBits = hb; c.haveRateBits = true; c.rateBits = pb; c.nChans = 0; c.analogGroupEmpty = true; return true; }
    if (kind == "frate") { c.haveRateBits = true; c.rateBits = fpat(atoi(arg.c_str())); c.nChans = 0; c.analogGroupEmpty = true; return true; }
    return false;
}
static void compareRefRef(const ref::File& A, const ref::File& B, std::vector<std::string>& d) {
    auto add = [&](const std::string& x) { if (std::find(d.begin(), d.end(), x) == d.end()) d.push_back(x); };
    if (A.nPoints != B.nPoints) add("header.points"); if (A.nAnalogMeas != B.nAnalogMeas) add("header.analog_samples"); if (A.first != B.first) add("header.first_frame"); if (A.last != B.last) add("header.last_frame");
    if (A.gap != B.gap) add("header.gap"); if (A.scaleBits != B.scaleBits) add("header.scale"); if (A.spf != B.spf) add("header.subframes"); if (A.rateBits != B.rateBits) add("header.rate"); if (A.nEvents != B.nEvents) add("header.event_count");
    for (int i = 0; i < 18; ++i) { if (A.evTimes[i] != B.evTimes[i]) add("header.event_time"); if (A.evDisp[i] != B.evDisp[i]) add("header.event_flag"); }
    for (auto& r : A.recs) { if (r.isGroup) continue; const ref::Rec* G = A.group(r.id); if (!G) continue; const ref::Rec* q = B.param(G->name, r.name); if (!q) { add("param.missing_after_resave"); continue; }
        if (G->name == "POINT" && r.name == "DATA_START") continue;
        std::string tn = r.type == -1 ? "CHAR" : r.type == 1 ? "BYTE" : r.type == 2 ? "INT" : "FLOAT";
        if (q->type != r.type) add("param.type"); else if (q->data != r.data) add("param." + tn + ".bytes"); }
    if (A.frames != B.frames) add("data.floats");
}

struct CaseOut { std::vector<std::pair<std::string, std::string>> viol; /* (prop|field, detail) */ std::string outcome; std::string transcript; };

static void eventsDiff(const OSnap& a, const OSnap& b, std::vector<std::string>& d) {
    if (a.h.nEvents != b.h.nEvents) d.push_back("header.event_count"); if (a.h.evTimes != b.h.evTimes) d.push_back("header.event_times"); if (a.h.evDisp != b.h.evDisp) d.push_back("header.event_flags");
    for (size_t i = 0; i < a.h.evLabels.size() && i < b.h.evLabels.size(); ++i) if (trimNulSp(a.h.evLabels[i]) != trimNulSp(b.h.evLabels[i])) { d.push_back("header.event_labels"); break; }
    if (a.h.gap != b.h.gap) d.push_back("header.interpolation_gap"); if (a.h.scale != b.h.scale) d.push_back("header.scale_word");
    if (a.h.keyLabel != b.h.keyLabel || a.h.firstBlockKey != b.h.firstBlockKey || a.h.fourChar != b.h.fourChar) d.push_back("header.key_label_words");
}
// named groups only (placeholders for unused ids are an implementation detail)
static OSnap namedOnly(const OSnap& o) { OSnap r = o; r.groups.clear(); for (auto& g : o.groups) if (!g.name.empty()) r.groups.push_back(g); return r; }

static void runCase(const std::string& mode, const std::string& choiceTxt, const std::string& dir, CaseOut& out, bool verbose, int generations) {
    gen::Choice ch = gen::parseChoice(choiceTxt); gen::Content c; gen::Layout l;
    if (mode == "c12") { if (!c12Content(choiceTxt, c, l)) { out.outcome = "not-well-formed"; return; } }
    else if (ch.count("file")) { }
    else if (ch.count("size")) {   // one count made large-ish, everything else default
        std::string dim = ch["size"].substr(0, ch["size"].find(':')); int n = atoi(ch["size"].substr(ch["size"].find(':') + 1).c_str()); gen::Choice none; gen::apply(none, c, l);
        if (dim == "points") { c.nPoints = n; } else if (dim == "chans") { c.nChans = n; } else if (dim == "frames") { c.nFrames = n; } else if (dim == "spf") { c.spf = n; c.analogRate = c.pointRate * (float)n; }
        else if (dim == "nparams") { c.extra = "custom"; for (int i = 0; i < n; ++i) c.customParams.push_back(gen::GParam::ints("P" + std::to_string(i), {}, {i - 100})); }
        else if (dim == "ngroups") { c.extraGroups = n; }
    }
    else if (ch.count("tail")) {   // the last record of the parameter section ends k bytes before the end of its last block, behind z leading zero bytes
        int z = atoi(ch["tail"].c_str()), k = atoi(ch["tail"].substr(ch["tail"].find(':') + 1).c_str()); gen::Choice none; gen::apply(none, c, l); l.zeros = z; c.extra = "custom";
        auto build = [&](int fill) { c.customParams.clear(); int a = fill / 2, b2 = fill - a; std::vector<int> va((size_t)a, 0x41), vb((size_t)b2, 0x42); c.customParams.push_back(gen::GParam::bytes("FILLA", {a}, va)); c.customParams.push_back(gen::GParam::bytes("FILLB", {b2}, vb)); c.customParams.push_back(gen::GParam::ints("LAST", {}, {1234})); };
        build(0); { std::string b0 = gen::encode(c, l); ref::File F0; if (!ref::decode(b0, F0, true).empty()) { out.outcome = "not-well-formed"; return; } long S0 = (long)(F0.termOffset - F0.paramOffset); long want = ((S0 + k) / 512 + 1) * 512 - k; long fill = want - S0; if (fill < 0 || fill > 500) { out.outcome = "not-well-formed"; return; } build((int)fill); }
    }
    else if (ch.count("strpad")) {   // sweep of declared string widths against text lengths: a text of t characters in cells of w characters (the writer pads, the reader trims)
        int w = atoi(ch["strpad"].c_str()), t = atoi(ch["strpad"].substr(ch["strpad"].find(':') + 1).c_str()); gen::Choice none; gen::apply(none, c, l); c.extra = "custom";
        std::string text; for (int i = 0; i < t; ++i) text += (char)('a' + i % 26);
        c.customParams.push_back(gen::GParam::strs("PAD2D", w, {2}, {text, t > 1 ? text.substr(0, (size_t)t - 1) : std::string()})); c.customParams.push_back(gen::GParam::strs("PAD1D", w, {}, {text})); c.customParams.push_back(gen::GParam::ints("AFTER", {}, {7}));
    }
    else if (!gen::apply(ch, c, l)) { out.outcome = "not-well-formed"; return; }
    std::string bytes; bool vendor = ch.count("file") > 0;
    if (vendor) { if (!readAll(ch["file"], bytes)) { out.outcome = "vendor-file-missing"; return; } } else bytes = gen::encode(c, l);
    ref::File F; std::string err = ref::decode(bytes, F, true);
    if (vendor && err.empty() && !F.dataComplete) {   // a shipped file whose data section is shorter than its header announces: compare what is decodable
        if (mode != "c02") { out.outcome = "vendor-truncated-skipped"; return; }
        F.nFrames = 0;
    }
    else if (!err.empty() || (!vendor && !F.chainExact) || !F.dataComplete) { out.outcome = "harness"; out.viol.push_back({"HARNESS|generator_vs_reference", "reference decoder rejects generated file: " + err + F.chainNote}); return; }
    std::string p1 = dir + "/g1.c3d"; writeAll(p1, bytes);
    std::unique_ptr<C3D> G1; std::string what;
    Outcome oc = guarded([&] { G1.reset(new C3D(p1)); }, &what);
    if (verbose) printf("case %s: %zu bytes, load -> %s %s\n", choiceTxt.c_str(), bytes.size(), outcomeName(oc), what.c_str());
    if (oc != OK) { out.outcome = std::string("load:") + outcomeName(oc); if (mode == "c02" || mode == "c12") out.viol.push_back({(mode == "c02" ? std::string("C02") : std::string("C12")) + "|load_refused/" + outcomeName(oc), "well-formed file refused: " + what}); return; }
    OSnap s1 = snapObject(*G1);
    { std::string t; dumpObject(t, s1); out.transcript = "loaded=" + hashStr(t).hex(); }
    if (mode == "c12") {
        std::string kind = choiceTxt.substr(0, choiceTxt.find(':')); if (kind == "hdr") kind = choiceTxt.substr(0, choiceTxt.find('='));
        std::vector<std::string> diffs; compareWithRef(s1, F, diffs);
        for (auto& d : diffs) out.viol.push_back({"C12|decode/" + d + "/" + kind, "loaded value differs from the bytes' reading in " + d});
        std::string p2 = dir + "/g2.c3d"; freshDestination(p2); oc = guarded([&] { G1->write(p2); }, &what);
        if (oc != OK) { out.viol.push_back({std::string("C12|save_throws/") + outcomeName(oc) + "/" + kind, what}); out.outcome = "save-throws"; return; }
        std::string b2; readAll(p2, b2); ref::File F2; std::string e2 = ref::decode(b2, F2, false);
        if (!e2.empty()) { out.viol.push_back({"C12|resaved_undecodable/" + kind, e2}); out.outcome = "resave-undecodable"; return; }
        std::vector<std::string> d2; compareRefRef(F, F2, d2);
        for (auto& d : d2) out.viol.push_back({"C12|encode/" + d + "/" + kind, "re-saved bytes differ from the original in " + d});
        out.outcome = (diffs.empty() && d2.empty()) ? "exact" : "differs"; return;
    }
    if (mode == "c02") {
        std::vector<std::string> diffs; compareWithRef(s1, F, diffs);
        for (auto& d : diffs) out.viol.push_back({"C02|decode/" + d, "loaded object differs from the reference decode in " + d});
        if (verbose) { std::string t; dumpObject(t, s1); printf("%s", t.c_str()); }
        out.outcome = diffs.empty() ? "match" : "differs"; return;
    }
    if (mode == "c14") {   // saving a LOADED object is pure and repeatable; the file digest goes to the transcript for the heap-perturbation join
        WSnap before; before.o = s1; std::string t0; dumpObject(t0, s1);
        std::string pa = dir + "/c14a.c3d", pb = dir + "/c14b.c3d";
        freshDestination(pa); longerDestination(pb, bytes.size() + 4096, (char)0xA5);   // first save to a fresh path, second one over an existing longer file
        oc = guarded([&] { G1->write(pa); }, &what); if (oc != OK) { out.outcome = "save-throws"; return; }
        std::string t1; dumpObject(t1, snapObject(*G1)); if (t1 != t0) out.viol.push_back({"C14|save_changed_object/loaded", "object differs after write()"});
        oc = guarded([&] { G1->write(pb); }, &what); if (oc != OK) { out.viol.push_back({"C14|second_save_throws/loaded", what}); return; }
        std::string ba, bb; readAll(pa, ba); readAll(pb, bb);
        if (bb.size() > ba.size() && bb.compare(0, ba.size(), ba) == 0) out.viol.push_back({"C14|destination_leftover_kept/loaded", "saved over a longer file, the result keeps " + S(bb.size() - ba.size()) + " bytes of it"});
        else if (ba != bb) { size_t off = 0; while (off < ba.size() && off < bb.size() && ba[off] == bb[off]) ++off; out.viol.push_back({std::string("C14|two_saves_differ/loaded/") + (off < 512 ? "header" : "body"), "first differing offset " + S(off)}); }
        out.transcript += " saved=" + hashStr(ba).hex(); out.outcome = out.viol.empty() ? "pure" : "differs"; return;
    }
    // c04: load -> save -> load (-> save -> load)
    OSnap prev = s1; std::string prevBytes; std::unique_ptr<C3D> cur = std::move(G1);
    for (int g = 2; g <= generations; ++g) {
        std::string pf = dir + "/g" + std::to_string(g) + ".c3d";
        writeAll(pf, std::string(bytes.size() + 4096 + 1000 * (size_t)g, (char)(0xA0 + g)));   // the destination already exists and is LONGER than what will be saved (different leftovers per generation)
        oc = guarded([&] { cur->write(pf); }, &what);
        if (oc != OK) { out.viol.push_back({std::string("C04|save_throws/gen") + std::to_string(g) + "/" + outcomeName(oc), what}); out.outcome = "save-throws"; return; }
        std::string fb; readAll(pf, fb); out.transcript += " gen" + std::to_string(g) + "=" + hashStr(fb).hex();
        if (g >= 3 && fb != prevBytes) { size_t off = 0; while (off < fb.size() && off < prevBytes.size() && fb[off] == prevBytes[off]) ++off; out.viol.push_back({"C04|bytes_differ/gen" + std::to_string(g - 1) + "_vs_gen" + std::to_string(g) + (off < 512 ? "/header" : "/body"), "first differing offset " + S(off) + " sizes " + S(prevBytes.size()) + "/" + S(fb.size())}); }
        prevBytes = fb;
        if (g == generations) break;
        std::unique_ptr<C3D> nx; oc = guarded([&] { nx.reset(new C3D(pf)); }, &what);
        if (oc != OK) { out.viol.push_back({std::string("C04|reload_throws/gen") + std::to_string(g) + "/" + outcomeName(oc) + "/" + featureTags(prev), "the library refuses its own re-saved file: " + what}); out.outcome = "reload-throws"; return; }
        OSnap sn = snapObject(*nx); std::vector<std::string> diffs; compareContent(namedOnly(prev), namedOnly(sn), diffs); eventsDiff(prev, sn, diffs);
        for (auto& d : diffs) out.viol.push_back({"C04|gen" + std::to_string(g - 1) + "_vs_gen" + std::to_string(g) + "/" + d, "content changed across load/save in " + d});
        if (verbose) printf("  generation %d: %zu diffs\n", g, diffs.size());
        prev = sn; cur = std::move(nx);
    }
    out.outcome = out.viol.empty() ? "stable" : "differs";
}

struct FCrumb { volatile uint64_t idx; volatile uint64_t progress; volatile uint32_t done; };

int main(int argc, char** argv) {
    std::string mode = "c02", tier = "quick", scratch, out, oneCase, emit, emitDir; int devs = 1, workers = 16; double deadlineS = 1e9; std::vector<std::string> vendorFiles; std::string transcript;
    for (int i = 1; i < argc; ++i) {
        std::string a = argv[i]; auto nxt = [&]() { if (i + 1 >= argc) exit(2); return std::string(argv[++i]); };
        if (a == "--mode") mode = nxt(); else if (a == "--devs") devs = atoi(nxt().c_str()); else if (a == "--tier") tier = nxt(); else if (a == "--scratch") scratch = nxt(); else if (a == "--out") out = nxt();
        else if (a == "--workers") workers = atoi(nxt().c_str()); else if (a == "--deadline") deadlineS = atof(nxt().c_str()); else if (a == "--case") oneCase = nxt(); else if (a == "--emit") emit = nxt(); else if (a == "--emit-dir") emitDir = nxt(); else if (a == "--vendor") vendorFiles.push_back(nxt()); else if (a == "--transcript") transcript = nxt();
        else { fprintf(stderr, "unknown arg %s\n", a.c_str()); return 2; }
    }
    if (scratch.empty()) scratch = "/dev/shm/ezc3d-verif-file." + std::to_string(getpid());
    mkdir(scratch.c_str(), 0755);
    bool thorough = tier == "thorough"; int generations = thorough ? 4 : 3;
    if (!oneCase.empty()) {
        if (!emit.empty()) { gen::Choice ch = gen::parseChoice(oneCase); gen::Content c; gen::Layout l; if (!gen::apply(ch, c, l)) { printf("not well-formed\n"); return 2; } writeAll(emit, gen::encode(c, l)); printf("wrote %s\n", emit.c_str()); }
        CaseOut co; runCase(mode, oneCase, scratch, co, true, generations);
        for (auto& v : co.viol) printf("  VIOLATION %s :: %s\n", v.first.c_str(), v.second.c_str());
        printf("outcome: %s, %zu violation(s)\n", co.outcome.c_str(), co.viol.size());
        return co.viol.empty() ? 0 : 1;
    }
    std::vector<gen::Choice> choices; std::vector<std::string> cases;
    if (mode == "c12") { cases = c12Cases(thorough); choices.resize(cases.size()); for (size_t i = 0; i < cases.size(); ++i) choices[i]["case"] = cases[i]; }
    else { gen::enumerate(gen::dims(thorough), devs, choices); for (auto& v : vendorFiles) { gen::Choice c; c["file"] = v; choices.push_back(c); }
        if (mode == "c02" || mode == "c04") for (int w = 0; w <= 255; ++w) for (int t : {0, 1, 6}) { if (t > w) continue; gen::Choice c; c["strpad"] = std::to_string(w) + ":" + std::to_string(t); choices.push_back(c); }
        if (mode == "c02" || mode == "c04") for (auto dim : {"points", "chans", "frames", "spf", "nparams", "ngroups"}) for (int n : {15, 16, 17, 31, 32, 33, 63, 64, 65, 127, 128, 129, 254, 255}) {   // every count at the powers of two and their neighbours
            if ((std::string(dim) == "spf" && n > 129) || (std::string(dim) == "ngroups" && n > 120)) continue; gen::Choice c; c["size"] = std::string(dim) + ":" + std::to_string(n); choices.push_back(c); }
        if (mode == "c02" || mode == "c04") for (int z : {0, 7, 37, 511, 549}) for (int k = 1; k <= 24; ++k) { gen::Choice c; c["tail"] = std::to_string(z) + ":" + std::to_string(k); choices.push_back(c); }   // where the section ends inside its last block x leading zeros
        for (auto& c : choices) cases.push_back(gen::choiceText(c)); }
    if (mode == "corpus") {
        mkdir(emitDir.c_str(), 0755); size_t n = 0; FILE* idx = fopen((emitDir + "/index.txt").c_str(), "w");
        for (auto& cs : cases) { gen::Choice ch = gen::parseChoice(cs); gen::Content c; gen::Layout l; if (!gen::apply(ch, c, l)) continue; std::string f = emitDir + "/f" + std::to_string(n++) + ".c3d"; writeAll(f, gen::encode(c, l)); fprintf(idx, "%s\t%s\n", f.c_str(), cs.c_str()); }
        fclose(idx); printf("%zu files\n", n); return 0;
    }
    double t0 = nowS(), deadline = t0 + deadlineS;
    FCrumb* crumbs = (FCrumb*)mmap(nullptr, sizeof(FCrumb) * (size_t)workers, PROT_READ | PROT_WRITE, MAP_SHARED | MAP_ANONYMOUS, -1, 0);
    std::vector<pid_t> pids((size_t)workers, 0); std::vector<uint64_t> from((size_t)workers, 0);
    struct CrashRec { std::string kind, cs, err; }; std::vector<CrashRec> crashes; int restarts = 0; size_t crashesTotal = 0;
    auto spawn = [&](int wi) {
        crumbs[wi].done = 0; fflush(stdout);
        pid_t p = fork();
        if (p == 0) {
            std::string base = scratch + "/w" + std::to_string(wi); mkdir(base.c_str(), 0755);
            FILE* fv = fopen((base + ".viol").c_str(), "a"); FILE* fo = fopen((base + ".outc").c_str(), "a"); FILE* ft = transcript.empty() ? nullptr : fopen((base + ".trs").c_str(), "a");
            { int efd = open((base + ".err").c_str(), O_WRONLY | O_CREAT | O_TRUNC, 0644); dup2(efd, 2); close(efd); }
            for (uint64_t i = from[wi]; i < cases.size(); ++i) {
                if ((int)(i % (uint64_t)workers) != wi) continue;
                if (nowS() > deadline) break;
                crumbs[wi].idx = i; crumbs[wi].progress++;
                CaseOut co; runCase(mode, cases[i], base, co, false, generations);
                for (auto& v : co.viol) { std::string d = v.second; for (auto& ch : d) if (ch == '\t' || ch == '\n') ch = ' '; fprintf(fv, "%s\t%llu\t%s\n", v.first.c_str(), (unsigned long long)i, d.c_str()); }
                fprintf(fo, "%llu\t%s\n", (unsigned long long)i, co.outcome.c_str()); fflush(fv); fflush(fo);
                if (ft) fprintf(ft, "%llu\t%s\t%s\t%s\n", (unsigned long long)i, cases[i].c_str(), co.outcome.c_str(), co.transcript.c_str());
            }
            crumbs[wi].done = 1; fclose(fv); fclose(fo); if (ft) fclose(ft); _exit(0);
        }
        pids[wi] = p;
    };
    for (int wi = 0; wi < workers; ++wi) for (const char* e : {".viol", ".outc", ".err", ".trs"}) unlink((scratch + "/w" + std::to_string(wi) + e).c_str());
    int live = 0; for (int wi = 0; wi < workers; ++wi) { spawn(wi); live++; }
    std::vector<double> lastProg((size_t)workers, nowS()); std::vector<uint64_t> lastVal((size_t)workers, 0);
    while (live > 0) {
        bool any = false;
        for (int wi = 0; wi < workers; ++wi) {
            if (!pids[wi]) continue; int stt = 0; pid_t r = waitpid(pids[wi], &stt, WNOHANG); bool hang = false;
            if (r == 0) { if (crumbs[wi].progress != lastVal[wi]) { lastVal[wi] = crumbs[wi].progress; lastProg[wi] = nowS(); continue; } if (nowS() - lastProg[wi] > 20) { kill(pids[wi], SIGKILL); waitpid(pids[wi], &stt, 0); hang = true; } else continue; }
            any = true; pids[wi] = 0; live--;
            bool clean = !hang && WIFEXITED(stt) && WEXITSTATUS(stt) == 0 && crumbs[wi].done;
            if (!clean) {
                uint64_t i = crumbs[wi].idx; std::string err; readAll(scratch + "/w" + std::to_string(wi) + ".err", err); if (err.size() > 4000) err = err.substr(err.size() - 4000);
                crashes.push_back({hang ? "hang" : WIFSIGNALED(stt) ? "signal " + std::to_string(WTERMSIG(stt)) : "exit " + std::to_string(WEXITSTATUS(stt)), i < cases.size() ? cases[i] : "?", err});
                if (++restarts <= 2000) { from[wi] = i + 1; lastProg[wi] = nowS(); spawn(wi); live++; }
            }
        }
        if (!any) usleep(2000);
    }
    if (!transcript.empty()) {   // C19: merge the per-worker transcripts in case order
        std::vector<std::string> lines(cases.size());
        for (int wi = 0; wi < workers; ++wi) { std::ifstream ftr(scratch + "/w" + std::to_string(wi) + ".trs"); std::string line; while (std::getline(ftr, line)) { uint64_t i = strtoull(line.c_str(), nullptr, 10); if (i < lines.size()) lines[i] = line; } }
        FILE* tf = fopen(transcript.c_str(), "w"); for (auto& l : lines) fprintf(tf, "%s\n", l.c_str()); fclose(tf);
    }
    // merge
    std::map<std::string, std::vector<std::pair<uint64_t, std::string>>> byField;   // "prop|field" -> (case idx, detail)
    std::map<std::string, uint64_t> outcomes; uint64_t done = 0;
    for (int wi = 0; wi < workers; ++wi) {
        std::ifstream fv(scratch + "/w" + std::to_string(wi) + ".viol"); std::string line;
        while (std::getline(fv, line)) { size_t a = line.find('\t'), b = line.find('\t', a + 1); if (a == std::string::npos || b == std::string::npos) continue; byField[line.substr(0, a)].push_back({strtoull(line.c_str() + a + 1, nullptr, 10), line.substr(b + 1)}); }
        std::ifstream fo(scratch + "/w" + std::to_string(wi) + ".outc");
        while (std::getline(fo, line)) { size_t a = line.find('\t'); if (a == std::string::npos) continue; outcomes[line.substr(a + 1)]++; done++; }
    }
    // minimal deviation sets per field class (a violating case is dropped when a strict subset of its choice violates the same class)
    struct MinV { std::string propField, cs, detail; uint64_t count; }; std::vector<MinV> mins;
    for (auto& kv : byField) {
        std::vector<std::pair<gen::Choice, std::pair<uint64_t, std::string>>> all; for (auto& e : kv.second) all.push_back({choices[e.first], e});
        std::sort(all.begin(), all.end(), [](const auto& x, const auto& y) { return x.first.size() != y.first.size() ? x.first.size() < y.first.size() : x.second.first < y.second.first; });
        std::vector<gen::Choice> kept;
        for (auto& e : all) {
            bool sub = false; for (auto& k : kept) { bool inc = true; for (auto& kvp : k) { auto it = e.first.find(kvp.first); if (it == e.first.end() || it->second != kvp.second) { inc = false; break; } } if (inc) { sub = true; break; } }
            if (sub) continue;
            if (mode == "c12" && !kept.empty()) continue;   // pattern files: one witness per field class
            kept.push_back(e.first); mins.push_back({kv.first, gen::choiceText(e.first), e.second.second, 1});
        }
        for (auto& m : mins) if (m.propField == kv.first) m.count = kv.second.size();
    }
    auto jstr = [](const std::string& s) { std::string o = "\""; for (unsigned char c : s) { if (c == '"' || c == '\\') { o += '\\'; o += (char)c; } else if (c == '\n') o += "\\n"; else if (c < 32 || c > 126) { char b[8]; snprintf(b, sizeof b, "\\u%04x", c); o += b; } else o += (char)c; } return o + "\""; };
    FILE* f = out.empty() ? stdout : fopen(out.c_str(), "w");
    fprintf(f, "{\n \"mode\": %s, \"tier\": %s, \"devs\": %d, \"cases\": %zu, \"done\": %llu, \"deadline_hit\": %s, \"restarts\": %d, \"wall_s\": %.2f, \"generations\": %d,\n", jstr(mode).c_str(), jstr(tier).c_str(), devs, cases.size(), (unsigned long long)done, (done + (size_t)restarts < cases.size() && nowS() > deadline) ? "true" : "false", restarts, nowS() - t0, generations);
    fprintf(f, " \"outcomes\": {"); { bool first = true; for (auto& kv : outcomes) { fprintf(f, "%s%s: %llu", first ? "" : ", ", jstr(kv.first).c_str(), (unsigned long long)kv.second); first = false; } } fprintf(f, "},\n");
    fprintf(f, " \"samples\": ["); for (size_t i = 0, n = 0; i < cases.size() && n < 8; i += std::max<size_t>(1, cases.size() / 7), ++n) fprintf(f, "%s%s", n ? ", " : "", jstr(cases[i]).c_str()); fprintf(f, "],\n");
    fprintf(f, " \"violations\": [\n"); for (size_t i = 0; i < mins.size(); ++i) { auto& m = mins[i]; size_t bar = m.propField.find('|'); fprintf(f, "%s  {\"prop\": %s, \"field\": %s, \"case\": %s, \"detail\": %s, \"count\": %llu}", i ? ",\n" : "", jstr(m.propField.substr(0, bar)).c_str(), jstr(m.propField.substr(bar + 1)).c_str(), jstr(m.cs).c_str(), jstr(m.detail).c_str(), (unsigned long long)m.count); } fprintf(f, "\n ],\n");
    {   // keep only minimal deviation sets per crash kind (a crashing case is dropped when a subset of its choice crashes the same way)
        std::vector<CrashRec> kept; std::vector<std::pair<std::string, gen::Choice>> keptCh; size_t total = crashes.size();
        std::vector<std::pair<gen::Choice, CrashRec>> all; for (auto& c : crashes) all.push_back({gen::parseChoice(c.cs), c});
        std::stable_sort(all.begin(), all.end(), [](const auto& x, const auto& y) { return x.first.size() < y.first.size(); });
        for (auto& e : all) { bool sub = false; for (auto& k : keptCh) { if (k.first != e.second.kind) continue; bool inc = true; for (auto& kv : k.second) { auto it = e.first.find(kv.first); if (it == e.first.end() || it->second != kv.second) { inc = false; break; } } if (inc) { sub = true; break; } } if (!sub) { kept.push_back(e.second); keptCh.push_back({e.second.kind, e.first}); } }
        crashes.swap(kept); crashesTotal = total;
    }
    fprintf(f, " \"crashes\": [\n"); for (size_t i = 0; i < crashes.size() && i < 300; ++i) fprintf(f, "%s  {\"kind\": %s, \"case\": %s, \"stderr\": %s}", i ? ",\n" : "", jstr(crashes[i].kind).c_str(), jstr(crashes[i].cs).c_str(), jstr(crashes[i].err).c_str()); fprintf(f, "\n ],\n \"crashes_total\": %zu\n}\n", crashesTotal);
    if (f != stdout) fclose(f);
    return 0;
}
