// drv_static.cpp — C19 corpus "static": the same API history executed (a) by the constructor of an object with static storage duration,
// i.e. BEFORE main() and, with a static archive, possibly before the library's own translation units have run their initialisers,
// (b) by main(), (c) by the destructor-free second static object defined in ANOTHER order relative to the first use. Each run prints the
// digest of the resulting object and of its saved file; all three must agree, and the transcript must be the same in every build.
//   drv_static --scratch DIR --transcript FILE [--out FILE]
#include "world.h"
#include "probes.h"
#include <cstdlib>
using namespace vf;

static Param rateParam(float v) { Param p("RATE"); p.set(std::vector<float>() = {v}); return p; }
static std::string runHistory(const std::string& tag) {
    std::string text;
    try {
        C3D c;
        c.point("P1"); c.point("P2 "); c.analog("a1"); c.analog("a2");
        c.parameter("POINT", rateParam(100.f)); c.parameter("ANALOG", rateParam(200.f));
        Param p("X", "described"); p.set(std::vector<std::string>() = {"ab", "wxyz"}); c.parameter("NEWG", p); c.lockGroup("NEWG");
        Shape sh; sh.pts = {"P1", "P2"}; sh.chans = {"a1", "a2"}; sh.nsub = 2;
        c.frame(buildFrame(sh, 0)); c.frame(buildFrame(sh, 2)); c.frame(buildFrame(sh, 1), 0);
        c.point("P3"); c.analog("a3");
        dumpObject(text, snapObject(c));
        const char* dir = getenv("VF_STATIC_DIR"); std::string path = std::string(dir ? dir : "/dev/shm") + "/static-" + tag + "-" + std::to_string((long)getpid()) + ".c3d";
        freshDestination(path); c.write(path); std::string bytes; readAll(path, bytes); ::unlink(path.c_str());
        return "object=" + hashStr(text).hex() + " file=" + hashStr(bytes).hex() + " bytes=" + std::to_string(bytes.size());
    } catch (const std::exception& e) { return std::string("exception: ") + e.what(); }
}
struct BeforeMain { std::string result; BeforeMain() { result = runHistory("ctor"); } };
static BeforeMain g_beforeMain;    // constructed during static initialisation of THIS translation unit

int main(int argc, char** argv) {
    std::string transcript, out, scratch;
    for (int i = 1; i < argc; ++i) { std::string a = argv[i]; if (a == "--transcript" && i + 1 < argc) transcript = argv[++i]; else if (a == "--out" && i + 1 < argc) out = argv[++i]; else if (a == "--scratch" && i + 1 < argc) scratch = argv[++i]; else if (i + 1 < argc) ++i; }
    std::string inMain = runHistory("main");
    FILE* f = transcript.empty() ? stdout : fopen(transcript.c_str(), "w");
    fprintf(f, "static-ctor -> %s\nmain -> %s\nsame -> %s\n", g_beforeMain.result.c_str(), inMain.c_str(), g_beforeMain.result == inMain ? "yes" : "NO");
    if (f != stdout) fclose(f);
    if (!out.empty()) { FILE* o = fopen(out.c_str(), "w"); if (o) { fprintf(o, "{\"same\": %s}\n", g_beforeMain.result == inMain ? "true" : "false"); fclose(o); } }
    return 0;
}
