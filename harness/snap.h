// snap.h — structured snapshot ("canonical dump") of an ezc3d::c3d object taken through PUBLIC
// accessors only, plus a 128-bit hash of its textual form.  Used by every engine-A oracle.
#pragma once
#include "ezc3d.h"
#include <cstdint>
#include <cstring>
#include <string>
#include <vector>
#include <map>
#include <sstream>

namespace vf {

// the harness' OWN trailing-space trimmer (oracles must not depend on the library helper they judge)
static inline void trimSpaces(std::string& s) { while (!s.empty() && s.back() == ' ') s.pop_back(); }
static inline uint32_t fbits(float f) { uint32_t u; std::memcpy(&u, &f, 4); return u; }
static inline float bitsf(uint32_t u) { float f; std::memcpy(&f, &u, 4); return f; }

struct PSnap {
    std::string name, desc; bool locked = false; int type = 0;
    std::vector<size_t> dims; std::vector<int> ints; std::vector<uint32_t> floats; std::vector<std::string> strs;
    bool operator==(const PSnap& o) const {
        return name == o.name && desc == o.desc && locked == o.locked && type == o.type && dims == o.dims &&
               ints == o.ints && floats == o.floats && strs == o.strs;
    }
    bool operator!=(const PSnap& o) const { return !(*this == o); }
};
struct GSnap {
    std::string name, desc; bool locked = false; std::vector<PSnap> params;
    bool operator==(const GSnap& o) const { return name == o.name && desc == o.desc && locked == o.locked && params == o.params; }
    bool operator!=(const GSnap& o) const { return !(*this == o); }
    const PSnap* find(const std::string& n) const { for (auto& p : params) if (p.name == n) return &p; return nullptr; }
    int findIdx(const std::string& n) const { for (size_t i = 0; i < params.size(); ++i) if (params[i].name == n) return (int)i; return -1; }
};
struct PtSnap {
    std::string name; uint32_t v[4] = {0, 0, 0, 0};
    bool operator==(const PtSnap& o) const { return name == o.name && !std::memcmp(v, o.v, sizeof v); }
    bool operator!=(const PtSnap& o) const { return !(*this == o); }
    bool eqXYZ(const PtSnap& o) const { return name == o.name && v[0] == o.v[0] && v[1] == o.v[1] && v[2] == o.v[2]; }
};
struct ChSnap {
    std::string name; uint32_t v = 0;
    bool operator==(const ChSnap& o) const { return name == o.name && v == o.v; }
    bool operator!=(const ChSnap& o) const { return !(*this == o); }
};
struct FrSnap {
    std::vector<PtSnap> pts; std::vector<std::vector<ChSnap>> subs;
    const void* paddr = nullptr; const void* aaddr = nullptr;   // identity of the Points / Analogs holders (aliasing)
    std::string byNameMismatch;   // non-empty when a by-name look-up in this frame does not lead to the first element that carries the name (read by position)
    bool sameContent(const FrSnap& o) const { return pts == o.pts && subs == o.subs; }
    bool sameContentNoResidual(const FrSnap& o) const {
        if (pts.size() != o.pts.size() || subs != o.subs) return false;
        for (size_t i = 0; i < pts.size(); ++i) if (!pts[i].eqXYZ(o.pts[i])) return false;
        return true;
    }
    bool empty() const { return pts.empty() && subs.empty(); }
};
struct HSnap {
    size_t zeros = 0, paramAddr = 0, checksum = 0, nPoints = 0, nAnalogMeas = 0, nAnalogs = 0, first = 0, last = 0, nFrames = 0, gap = 0;
    int scale = 0; size_t dataStart = 0, subPerFrame = 0; uint32_t rate = 0; int e1 = 0, e2 = 0, e3 = 0, e4 = 0;
    size_t keyLabel = 0, firstBlockKey = 0, fourChar = 0, nEvents = 0;
    std::vector<uint32_t> evTimes; std::vector<size_t> evDisp; std::vector<std::string> evLabels;
    bool operator==(const HSnap& o) const {
        return zeros == o.zeros && paramAddr == o.paramAddr && checksum == o.checksum && nPoints == o.nPoints &&
               nAnalogMeas == o.nAnalogMeas && nAnalogs == o.nAnalogs && first == o.first && last == o.last &&
               nFrames == o.nFrames && gap == o.gap && scale == o.scale && dataStart == o.dataStart &&
               subPerFrame == o.subPerFrame && rate == o.rate && e1 == o.e1 && e2 == o.e2 && e3 == o.e3 && e4 == o.e4 &&
               keyLabel == o.keyLabel && firstBlockKey == o.firstBlockKey && fourChar == o.fourChar && nEvents == o.nEvents &&
               evTimes == o.evTimes && evDisp == o.evDisp && evLabels == o.evLabels;
    }
};
struct OSnap {
    HSnap h; size_t pStart = 0, pChecksum = 0, pBlocks = 0, pProc = 0;
    std::vector<GSnap> groups; std::vector<FrSnap> frames;
    const GSnap* group(const std::string& n) const { for (auto& g : groups) if (g.name == n) return &g; return nullptr; }
    int groupIdx(const std::string& n) const { for (size_t i = 0; i < groups.size(); ++i) if (groups[i].name == n) return (int)i; return -1; }
    bool sameParams(const OSnap& o) const { return pStart == o.pStart && pChecksum == o.pChecksum && pBlocks == o.pBlocks && pProc == o.pProc && groups == o.groups; }
    bool sameFrames(const OSnap& o) const {
        if (frames.size() != o.frames.size()) return false;
        for (size_t i = 0; i < frames.size(); ++i) if (!frames[i].sameContent(o.frames[i])) return false;
        return true;
    }
    bool sameContent(const OSnap& o) const { return h == o.h && sameParams(o) && sameFrames(o); }
};

// ---- capture -------------------------------------------------------------------------------
inline PSnap snapParam(const ezc3d::ParametersNS::GroupNS::Parameter& p) {
    PSnap s; s.name = p.name(); s.desc = p.description(); s.locked = p.isLocked(); s.type = (int)p.type(); s.dims = p.dimension();
    switch (p.type()) {
    case ezc3d::DATA_TYPE::CHAR: s.strs = p.valuesAsString(); break;
    case ezc3d::DATA_TYPE::BYTE: s.ints = p.valuesAsByte(); break;
    case ezc3d::DATA_TYPE::INT: s.ints = p.valuesAsInt(); break;
    case ezc3d::DATA_TYPE::FLOAT: for (float f : p.valuesAsFloat()) s.floats.push_back(fbits(f)); break;
    default: break;
    }
    return s;
}
inline GSnap snapGroup(const ezc3d::ParametersNS::GroupNS::Group& g) {
    GSnap s; s.name = g.name(); s.desc = g.description(); s.locked = g.isLocked();
    for (auto& p : g.parameters()) s.params.push_back(snapParam(p));
    return s;
}
inline FrSnap snapFrame(const ezc3d::DataNS::Frame& f) {
    FrSnap s; s.paddr = &f.points(); s.aaddr = &f.analogs();
    for (auto& p : f.points().points()) {
        PtSnap q; q.name = p.name(); q.v[0] = fbits(p.x()); q.v[1] = fbits(p.y()); q.v[2] = fbits(p.z()); q.v[3] = fbits(p.residual());
        s.pts.push_back(q);
    }
    for (auto& sf : f.analogs().subframes()) {
        std::vector<ChSnap> v;
        for (auto& c : sf.channels()) { ChSnap q; q.name = c.name(); q.v = fbits(c.data()); v.push_back(q); }
        s.subs.push_back(v);
    }
    // the second view of the same content: every name, looked up, must lead to the first element that carries it
    for (size_t i = 0; i < s.pts.size() && s.byNameMismatch.empty(); ++i) {
        size_t want = i; for (size_t j = 0; j < i; ++j) if (s.pts[j].name == s.pts[i].name) { want = j; break; }
        long got = -1; try { got = (long)f.points().pointIdx(s.pts[i].name); } catch (const std::exception&) { got = -1; }
        if (got != (long)want) s.byNameMismatch = "point '" + s.pts[i].name + "' at " + std::to_string(want) + " found at " + std::to_string(got);
    }
    for (const char* foreign : {"grown", "Z", "Zr", "Zs", "Zh", "NEWP", "A", "B"}) {   // names the harness gives to points of OTHER frames: found here only if this frame holds one
        if (!s.byNameMismatch.empty()) break; bool has = false; for (auto& q : s.pts) if (q.name == foreign) has = true; if (has) continue;
        long got = -1; try { got = (long)f.points().pointIdx(foreign); } catch (const std::exception&) { got = -1; }
        if (got != -1) s.byNameMismatch = std::string("point '") + foreign + "' is not in this frame, yet found at " + std::to_string(got);
    }
    for (size_t k = 0; k < s.subs.size() && s.byNameMismatch.empty(); ++k) for (size_t i = 0; i < s.subs[k].size() && s.byNameMismatch.empty(); ++i) {
        size_t want = i; for (size_t j = 0; j < i; ++j) if (s.subs[k][j].name == s.subs[k][i].name) { want = j; break; }
        long got = -1; try { got = (long)f.analogs().subframe(k).channelIdx(s.subs[k][i].name); } catch (const std::exception&) { got = -1; }
        if (got != (long)want) s.byNameMismatch = "channel '" + s.subs[k][i].name + "' of sub-frame " + std::to_string(k) + " at " + std::to_string(want) + " found at " + std::to_string(got);
    }
    return s;
}
inline HSnap snapHeader(const ezc3d::Header& h) {
    HSnap s;
    s.zeros = h.nbOfZerosBeforeHeader(); s.paramAddr = h.parametersAddress(); s.checksum = h.checksum(); s.nPoints = h.nb3dPoints();
    s.nAnalogMeas = h.nbAnalogsMeasurement(); s.nAnalogs = h.nbAnalogs(); s.first = h.firstFrame(); s.last = h.lastFrame();
    s.nFrames = h.nbFrames(); s.gap = h.nbMaxInterpGap(); s.scale = h.scaleFactor(); s.dataStart = h.dataStart();
    s.subPerFrame = h.nbAnalogByFrame(); s.rate = fbits(h.frameRate()); s.e1 = h.emptyBlock1(); s.e2 = h.emptyBlock2();
    s.e3 = h.emptyBlock3(); s.e4 = h.emptyBlock4(); s.keyLabel = h.keyLabelPresent(); s.firstBlockKey = h.firstBlockKeyLabel();
    s.fourChar = h.fourCharPresent(); s.nEvents = h.nbEvents();
    for (float f : h.eventsTime()) s.evTimes.push_back(fbits(f));
    s.evDisp = h.eventsDisplay(); s.evLabels = h.eventsLabel();
    return s;
}
inline OSnap snapObject(const ezc3d::c3d& c) {
    OSnap s; s.h = snapHeader(c.header());
    const auto& P = c.parameters();
    s.pStart = P.parametersStart(); s.pChecksum = P.checksum(); s.pBlocks = P.nbParamBlock(); s.pProc = P.processorType();
    for (auto& g : P.groups()) s.groups.push_back(snapGroup(g));
    for (auto& f : c.data().frames()) s.frames.push_back(snapFrame(f));
    return s;
}

// ---- text form -----------------------------------------------------------------------------
inline void esc(std::string& o, const std::string& s) {
    o += '"';
    for (unsigned char ch : s) {
        if (ch == '"' || ch == '\\') { o += '\\'; o += (char)ch; }
        else if (ch < 32 || ch > 126) { char b[8]; snprintf(b, sizeof b, "\\x%02x", ch); o += b; }
        else o += (char)ch;
    }
    o += '"';
}
inline void hex8(std::string& o, uint32_t v) { char b[12]; snprintf(b, sizeof b, "%08x", v); o += b; }
inline void num(std::string& o, long long v) { o += std::to_string(v); }
inline void unum(std::string& o, size_t v) { o += std::to_string(v); }

inline void dumpParam(std::string& o, const PSnap& p) {
    o += "    P "; esc(o, p.name); o += p.locked ? " L" : " U"; o += " t="; num(o, p.type); o += " d=[";
    for (size_t i = 0; i < p.dims.size(); ++i) { if (i) o += ','; unum(o, p.dims[i]); }
    o += "] v=[";
    for (size_t i = 0; i < p.ints.size(); ++i) { if (i) o += ','; num(o, p.ints[i]); }
    for (size_t i = 0; i < p.floats.size(); ++i) { if (i) o += ','; hex8(o, p.floats[i]); }
    for (size_t i = 0; i < p.strs.size(); ++i) { if (i) o += ','; esc(o, p.strs[i]); }
    o += "] desc="; esc(o, p.desc); o += '\n';
}
inline void dumpGroup(std::string& o, const GSnap& g) {
    o += "  G "; esc(o, g.name); o += g.locked ? " L" : " U"; o += " desc="; esc(o, g.desc); o += '\n';
    for (auto& p : g.params) dumpParam(o, p);
}
inline void dumpFrame(std::string& o, const FrSnap& f) {
    o += "pts=[";
    for (auto& p : f.pts) { esc(o, p.name); o += ':'; for (int k = 0; k < 4; ++k) { hex8(o, p.v[k]); if (k < 3) o += '/'; } o += ' '; }
    o += "] subs=[";
    for (auto& s : f.subs) { o += '('; for (auto& c : s) { esc(o, c.name); o += ':'; hex8(o, c.v); o += ' '; } o += ')'; }
    o += "]"; if (!f.byNameMismatch.empty()) { o += " !byname: "; o += f.byNameMismatch; } o += "\n";
}
inline void dumpHeader(std::string& o, const HSnap& h) {
    o += "H zeros="; unum(o, h.zeros); o += " paddr="; unum(o, h.paramAddr); o += " ck="; unum(o, h.checksum);
    o += " npts="; unum(o, h.nPoints); o += " nmeas="; unum(o, h.nAnalogMeas); o += " nan="; unum(o, h.nAnalogs);
    o += " first="; unum(o, h.first); o += " last="; unum(o, h.last); o += " nfr="; unum(o, h.nFrames); o += " gap="; unum(o, h.gap);
    o += " scale="; num(o, h.scale); o += " dstart="; unum(o, h.dataStart); o += " spf="; unum(o, h.subPerFrame);
    o += " rate="; hex8(o, h.rate); o += " e="; num(o, h.e1); o += ','; num(o, h.e2); o += ','; num(o, h.e3); o += ','; num(o, h.e4);
    o += " key="; unum(o, h.keyLabel); o += ','; unum(o, h.firstBlockKey); o += ','; unum(o, h.fourChar); o += " nev="; unum(o, h.nEvents);
    o += " evt=["; for (auto t : h.evTimes) { hex8(o, t); o += ' '; } o += "] evd=["; for (auto d : h.evDisp) { unum(o, d); o += ' '; }
    o += "] evl=["; for (auto& l : h.evLabels) { esc(o, l); o += ' '; } o += "]\n";
}
inline void dumpObject(std::string& o, const OSnap& s) {
    dumpHeader(o, s.h);
    o += "PS start="; unum(o, s.pStart); o += " ck="; unum(o, s.pChecksum); o += " blocks="; unum(o, s.pBlocks); o += " proc="; unum(o, s.pProc); o += '\n';
    for (auto& g : s.groups) dumpGroup(o, g);
    for (size_t i = 0; i < s.frames.size(); ++i) { o += "F"; unum(o, i); o += ' '; dumpFrame(o, s.frames[i]); }
}

// ---- 128-bit hash ---------------------------------------------------------------------------
struct Key {
    uint64_t a = 0, b = 0;
    bool operator==(const Key& o) const { return a == o.a && b == o.b; }
    bool operator!=(const Key& o) const { return !(*this == o); }
    bool operator<(const Key& o) const { return a != o.a ? a < o.a : b < o.b; }
    std::string hex() const { char buf[40]; snprintf(buf, sizeof buf, "%016llx%016llx", (unsigned long long)a, (unsigned long long)b); return buf; }
};
struct KeyHash { size_t operator()(const Key& k) const { return (size_t)(k.a ^ (k.b * 0x9E3779B97F4A7C15ULL)); } };
static inline uint64_t mix64(uint64_t x) { x ^= x >> 33; x *= 0xff51afd7ed558ccdULL; x ^= x >> 33; x *= 0xc4ceb9fe1a85ec53ULL; x ^= x >> 33; return x; }
inline Key hashBytes(const void* data, size_t n) {
    const unsigned char* p = (const unsigned char*)data;
    uint64_t a = 0xcbf29ce484222325ULL, b = 0x84222325cbf29ce4ULL ^ n;
    size_t i = 0;
    for (; i + 8 <= n; i += 8) { uint64_t w; std::memcpy(&w, p + i, 8); a = mix64(a ^ w) + 0x9E3779B97F4A7C15ULL; b = (b ^ w) * 0x100000001b3ULL; b = (b << 29) | (b >> 35); }
    uint64_t w = 0; std::memcpy(&w, p + i, n - i); a = mix64(a ^ w ^ ((uint64_t)(n - i) << 56)); b = mix64((b ^ w) * 0x100000001b3ULL);
    return Key{a, b};
}
inline Key hashStr(const std::string& s) { return hashBytes(s.data(), s.size()); }

} // namespace vf
