/* io_shim.c — link-time interposition of fopen/fopen64/fclose/write/writev/lseek64: a fake device with a fault plan.
 * Defined in the executable, these symbols pre-empt libc's for libstdc++'s basic_filebuf; real ones come from dlsym(RTLD_NEXT). */
#define _GNU_SOURCE
#include <dlfcn.h>
#include <errno.h>
#include <fcntl.h>
#include <sys/stat.h>
#include <stdio.h>
#include <string.h>
#include <sys/types.h>
#include <sys/uio.h>
#include <unistd.h>
#include "io_shim.h"

struct ShimPlan vf_plan;
struct ShimStats vf_stats;

static FILE* (*r_fopen)(const char*, const char*);
static FILE* (*r_fopen64)(const char*, const char*);
static int (*r_fclose)(FILE*);
static ssize_t (*r_write)(int, const void*, size_t);
static off64_t (*r_lseek64)(int, off64_t, int);
static void init(void) {
    if (r_write) return;
    r_fopen = (FILE * (*)(const char*, const char*)) dlsym(RTLD_NEXT, "fopen");
    r_fopen64 = (FILE * (*)(const char*, const char*)) dlsym(RTLD_NEXT, "fopen64");
    r_fclose = (int (*)(FILE*))dlsym(RTLD_NEXT, "fclose");
    r_write = (ssize_t(*)(int, const void*, size_t))dlsym(RTLD_NEXT, "write");
    r_lseek64 = (off64_t(*)(int, off64_t, int))dlsym(RTLD_NEXT, "lseek64");
}
static int vf_extraFd[8]; static int vf_extraN = 0;   /* further descriptors open on the device besides devFd */
void vf_shim_reset(void) { memset(&vf_stats, 0, sizeof vf_stats); vf_stats.devFd = -1; vf_extraN = 0; }

static int is_dev_fd(int fd) { if (fd < 0) return 0; if (fd == vf_stats.devFd) return 1; for (int i = 0; i < vf_extraN; ++i) if (vf_extraFd[i] == fd) return 1; return 0; }
static void forget_fd(int fd) { if (fd == vf_stats.devFd) { vf_stats.devFd = vf_extraN ? vf_extraFd[--vf_extraN] : -1; return; } for (int i = 0; i < vf_extraN; ++i) if (vf_extraFd[i] == fd) { vf_extraFd[i] = vf_extraFd[--vf_extraN]; return; } }
static int is_dev(const char* path) { return vf_plan.active && vf_plan.prefix[0] && strncmp(path, vf_plan.prefix, strlen(vf_plan.prefix)) == 0; }

static FILE* open_common(FILE* (*real)(const char*, const char*), const char* path, const char* mode) {
    init();
    if (is_dev(path) && (strchr(mode, 'w') || strchr(mode, 'a') || strchr(mode, '+'))) {   /* every write-capable open of the device path (a second stream on the same file, append or update mode, counts too) */
        vf_stats.opens++;
        if (vf_plan.openErrno) { vf_stats.injected++; errno = vf_plan.openErrno; return NULL; }
        FILE* f = real(path, mode);
        if (f) { int fd = fileno(f); if (vf_stats.devFd < 0) vf_stats.devFd = fd; else if (vf_extraN < 8) vf_extraFd[vf_extraN++] = fd; }
        return f;
    }
    return real(path, mode);
}
FILE* fopen(const char* path, const char* mode) { init(); return open_common(r_fopen, path, mode); }
FILE* fopen64(const char* path, const char* mode) { init(); return open_common(r_fopen64, path, mode); }

int fclose(FILE* f) {
    init();
    int fd = f ? fileno(f) : -1;
    if (vf_plan.active && is_dev_fd(fd)) {
        vf_stats.closes++; forget_fd(fd);
        int rc = r_fclose(f);
        if (vf_plan.closeFailErrno) { vf_stats.injected++; errno = vf_plan.closeFailErrno; return EOF; }
        return rc;
    }
    return r_fclose(f);
}

ssize_t write(int fd, const void* buf, size_t n) {
    init();
    if (!(vf_plan.active && is_dev_fd(fd))) return r_write(fd, buf, n);
    vf_stats.writeCalls++;
    if (vf_plan.failWriteCall > 0 && vf_stats.writeCalls == vf_plan.failWriteCall) { vf_stats.injected++; errno = vf_plan.failErrno ? vf_plan.failErrno : EIO; return -1; }
    size_t take = n;
    if (vf_plan.capacity >= 0) {
        off64_t pos = r_lseek64(fd, 0, SEEK_CUR);
        { int fl = fcntl(fd, F_GETFL); struct stat sb; if (fl >= 0 && (fl & O_APPEND) && fstat(fd, &sb) == 0) pos = sb.st_size; }   /* an append-mode descriptor writes at the end whatever its offset says */
        long room = vf_plan.capacity - (long)pos;
        if (room <= 0 && n > 0) { vf_stats.injected++; errno = ENOSPC; return -1; }
        if ((long)take > room) { take = (size_t)room; vf_stats.injected++; }
    }
    if (take > 1 && (vf_plan.shortMode == -1 || (vf_plan.shortMode > 0 && vf_stats.writeCalls == vf_plan.shortMode))) { take = take / 2; vf_stats.injected++; }
    ssize_t r = r_write(fd, buf, take);
    if (r > 0) vf_stats.bytesAccepted += r;
    return r;
}
ssize_t writev(int fd, const struct iovec* iov, int cnt) {   /* route through write() so the plan applies: first non-empty vector only (a legal short write) */
    init();
    for (int i = 0; i < cnt; ++i) if (iov[i].iov_len) return write(fd, iov[i].iov_base, iov[i].iov_len);
    return 0;
}
off64_t lseek64(int fd, off64_t off, int whence) {
    init();
    if (vf_plan.active && is_dev_fd(fd)) {
        int repositions = !(whence == SEEK_CUR && off == 0);   /* (tellg is a seek by 0 from the current position: a pipe answers that with ESPIPE too, but libstdc++ asks it before every write; only real moves are failed) */
        if (repositions) { vf_stats.seeks++; if (vf_plan.failSeekCall == -1 || (vf_plan.failSeekCall > 0 && vf_stats.seeks == vf_plan.failSeekCall)) { vf_stats.injected++; errno = ESPIPE; return (off64_t)-1; } }
    }
    return r_lseek64(fd, off, whence);
}
