// drv_api.cpp — engine A driver: explicit-state exploration of API histories on the real ezc3d code.
//   drv_api --alphabet NAME --oracles C05,C10 --depth D [--workers N] [--maxstates M] [--deadline S] --scratch DIR --out FILE
//   drv_api --alphabet NAME --oracles ... --replay "op ; op ; op" --scratch DIR        (linear replay, no explorer)
//   drv_api --alphabet NAME --list
#include "explorer.h"
#include "refc3d.h"
#include "c03.h"
#include "genfile.h"
#include <cstdlib>

using namespace vf;

// ---- sanitizer report capture (asan flavour) ------------------------------------------------------
static std::string g_sanReport;
#ifdef VF_ASAN
extern "C" void __asan_set_error_report_callback(void (*)(const char*));
static void sanCallback(const char* rep) { if (g_sanReport.size() < 20000) g_sanReport += rep; g_sanReport += "\n=====\n"; }
#endif
std::string vf::takeSanitizerReport() { std::string r; r.swap(g_sanReport); return r; }

// ---- alphabets ------------------------------------------------------------------------------------
static std::vector<Op> buildAlphabet(const std::string& name, Limits& L, const std::string& tier) {
    std::vector<Op> A; auto menu = paramMenu();
    auto pv = [&](const std::string& id) -> const PVal& { for (auto& m : menu) if (m.id == id) return m; fprintf(stderr, "no pval %s\n", id.c_str()); exit(2); };
    bool thorough = tier == "thorough";
    if (name == "mut") {            // C05 / C10 / C13: the full mutator alphabet
        L.maxFrames = 3; L.maxPoints = 3; L.maxChans = 2; L.noColumnsOnGaps = true; L.emptyFrameOnlyWhenBlank = true; L.documentedDevsOnly = true; L.noDuplicateDeclarations = true; L.noRateEditWithData = true;
        for (auto n : {"A", "B", "A "}) A.push_back(opPoint(n, L));
        for (auto n : {"a", "b"}) A.push_back(opAnalog(n, L));
        for (float r : {0.f, 50.f, 100.f, 23.976f, 100.005f}) A.push_back(opRate("POINT", r, L));   // 100 / 100.005: nearly equal rates, 5e-3 Hz apart
        for (float r : {0.f, 100.f, 200.f, 15.f * 23.976f}) A.push_back(opRate("ANALOG", r, L));
        A.push_back(opParam("NEWG", "X", pv("i3"), "d0", false, L));
        A.push_back(opParam("POINT", "X", pv("s2"), "d1", true, L));
        for (auto t : {"app", "0", "last", "n", "n+1"}) A.push_back(opFrame("ok", t, 0, L));
        A.push_back(opFrame("ok", "app", 1, L)); A.push_back(opFrame("ok", "app", 2, L));
        for (auto d : {"pt_missing", "pt_extra", "pt_renamed", "pt_dup", "ch_missing", "ch_extra", "pt_none"}) A.push_back(opFrame(d, "app", 0, L));
        A.push_back(opFrame("pt_missing", "0", 0, L)); A.push_back(opFrame("ch_extra", "n+1", 0, L));
        A.push_back(opFrame("addpoints", "0", 1, L)); A.push_back(opFrame("addanalogs", "0", 1, L));
        A.push_back(opFrame("sub_extra", "0", 1, L)); A.push_back(opFrame("sub_missing", "0", 1, L));   // the single stored frame replaced by one with another number of sub-frames
        A.push_back(opBigObject(17, 5, 9)); A.push_back(opBulkPoints(33)); A.push_back(opBulkChans(17)); A.push_back(opBulkPoints(300));   // (300 names: more than one LABELS parameter holds on file; legal in memory)
        A.push_back(opSubmitStored(0, "n", L)); A.push_back(opSubmitStored(0, "app", L));   // a stored frame handed back to the object
        for (auto w : {"both", "pt", "an"}) A.push_back(opFrameFree(w, 0, L));
        A.push_back(opFrameEmpty(L));
        for (auto d : {"ok", "ok2", "fewer", "more", "none", "nocol", "dup", "dup2", "ragged", "surplus", "otherkind"}) A.push_back(opColPoint(d, 0, L));
        for (auto d : {"ok", "ok2", "fewer", "more", "none", "nocol", "sub_fewer", "sub_more", "dup", "dup2", "ragged", "surplus", "otherkind"}) A.push_back(opColAnalog(d, 0, L));
        A.push_back(opParamBad("NEWB", true, false)); A.push_back(opParamBad("POINT", false, true)); A.push_back(opParamBad("NEWB", false, false));
        A.push_back(opLock("NOPE", true)); A.push_back(opLock("NOPE", false));
        A.push_back(opParamMandatoryBad("POINT", "RATE", "int")); A.push_back(opParamMandatoryBad("POINT", "USED", "empty-int")); A.push_back(opParamMandatoryBad("ANALOG", "USED", "string")); A.push_back(opParamMandatoryBad("POINT", "FRAMES", "float"));   // (ANALOG:RATE is only read when POINT:RATE is set: not refused in every state, hence not generated)
        A.push_back(opReload());
        // objects with hundreds of names are expensive in every descendant: only a few calls go on from them
        for (auto& op : A) { bool keep = op.name == "reload" || op.name == "POINT:RATE=100" || op.name == "frame(ok,app,v0)" || op.name == "frame(pt_renamed,app,v0)" || op.name == "point(\"A\")" || op.name == "lockGroup(NOPE)";
            if (!keep) { auto e = op.enabled; op.enabled = [e](const World& w, const WSnap& sn) { return pStrs(sn.o, "POINT", "LABELS").size() <= 64 && e(w, sn); }; } }
    } else if (name == "frames") {  // C06 / C08: frame targets, contents, caller registers, in-place edits
        L.maxFrames = thorough ? 5 : 4; L.maxPoints = 3; L.maxChans = 2; L.noRateEditWithData = true;
        for (auto n : {"A", "B"}) A.push_back(opPoint(n, L));
        A.push_back(opAnalog("a", L));
        A.push_back(opRate("POINT", 100.f, L)); A.push_back(opRate("ANALOG", 200.f, L));
        for (auto t : {"app", "0", "1", "last", "n", "n+1", "n+2"}) for (int vs : {0, 2}) A.push_back(opFrame("ok", t, vs, L));
        A.push_back(opFrame("ok", "app", 1, L));
        A.push_back(opColPoint("ok", 1, L)); A.push_back(opColPoint("ok2", 2, L)); A.push_back(opColAnalog("ok", 1, L)); A.push_back(opColAnalog("ok2", 2, L)); A.push_back(opColPoint("surplus", 1, L)); A.push_back(opColAnalog("surplus", 1, L));
        for (int r : {0, 1}) { A.push_back(opRegBuild(r, r)); A.push_back(opRegSubmit(r, "app", L)); A.push_back(opRegMut(r, "px")); }
        A.push_back(opRegSubmit(0, "0", L)); A.push_back(opRegSubmit(0, "n+1", L)); A.push_back(opRegMut(0, "ch")); A.push_back(opRegExt(0, L)); A.push_back(opRegCopy(1, 0));
        A.push_back(opRegSubmitTemp(0, "app", L)); A.push_back(opRegSubmitTemp(0, "n+1", L)); A.push_back(opRegSubmitTemp(1, "0", L));
        A.push_back(opRegMut(0, "rename")); A.push_back(opRegMut(0, "rename_held")); A.push_back(opRegMut(0, "rename_set")); A.push_back(opRegMut(0, "rename_after_lookup")); A.push_back(opRegMut(1, "rename"));   // the caller renames a point of its own frame (directly / through a reference taken before an indexed set)
        for (auto wh : {"asis", "newpts", "newan"}) A.push_back(opTakeEditPutBack(0, 0, wh, 1)); A.push_back(opTakeEditPutBack(1, 1, "newpts", 2));   // read-modify-write of one slot through a copy of the stored frame
        A.push_back(opRegHold(0)); A.push_back(opRegMutHeld(0));
        A.push_back(opStoredAddSubframe(0)); A.push_back(opStoredAddSubframe(1)); A.push_back(opRegAddSubframe(0));
        for (size_t f : {0, 1, 2}) { A.push_back(opEditStored(f, "px")); }
        A.push_back(opEditStored(1, "ch"));
        for (auto t : {"app", "n", "n+2", "last"}) A.push_back(opSubmitStored(0, t, L));
    } else if (name == "c07") {     // C07: object states x deviations
        L.maxFrames = 2; L.maxPoints = 3; L.maxChans = 2;
        for (auto n : {"AB", "A", "C"}) A.push_back(opPoint(n, L));   // one label is a proper prefix of the other
        A.push_back(opBulkPoints(300)); A.push_back(opBulkPoints(40));   // more declared points than one LABELS parameter can hold on file (in memory that is legal)
        for (auto n : {"a", "ab"}) A.push_back(opAnalog(n, L));
        for (float r : {0.f, 100.f, 0.5f}) A.push_back(opRate("POINT", r));    // 0.5 Hz: a rate that is set, yet truncates to 0
        for (float r : {0.f, 200.f, 0.5f}) A.push_back(opRate("ANALOG", r));
        for (auto d : {"ok", "pt_missing", "pt_extra", "pt_renamed", "pt_renamed_first", "pt_renamed_mid", "pt_dup", "pt_perm", "pt_none", "ch_missing", "ch_extra", "ch_renamed", "sub_missing", "sub_extra", "an_none", "empty"})
            for (auto t : {"app", "0", "n+1"}) A.push_back(opFrame(d, t, 0, L));
        for (auto t : {"app", "0", "n+1"}) A.push_back(opFrame("sub_ragged", t, 1, L));   // sub-frames of unequal width (other values than the stored frames: a half-done replacement shows)
        for (auto w : {"both", "pt", "an"}) A.push_back(opFrameFree(w, 0, L));
        A.push_back(opFrameEmpty(L));
        if (thorough) {   // pairs of deviations
            std::vector<std::string> dv = {"pt_extra", "pt_missing", "pt_renamed", "ch_extra", "ch_missing", "sub_extra", "an_none"};
            for (size_t i = 0; i < dv.size(); ++i) for (size_t j = i + 1; j < dv.size(); ++j) A.push_back(opFrame(dv[i] + "+" + dv[j], "app", 0, L));
        }
        for (auto d : {"ok", "ok2", "fewer", "more", "none", "nocol", "dup", "dup2", "ragged", "otherkind"}) A.push_back(opColPoint(d, 0, L));
        for (auto d : {"ok", "ok2", "fewer", "more", "none", "nocol", "sub_fewer", "sub_more", "dup", "dup2", "ragged", "otherkind"}) A.push_back(opColAnalog(d, 0, L));
        A.push_back(opReload());
    } else if (name == "params") {  // C09: add / replace / lock / unlock over existing and new groups
        L.maxFrames = 1; L.maxPoints = 1; L.maxChans = 1; L.maxGroups = 5; L.maxParamsPerGroup = 12;
        std::vector<std::string> vals = thorough ? std::vector<std::string>{"i7", "i22", "ie", "i20", "f23", "s2", "s22", "s0", "se", "i321", "i11", "sctl", "fz+", "fz-"} : std::vector<std::string>{"i7", "i22", "i20", "f23", "s2", "se", "i11", "fz+", "fz-"};
        for (auto g : {"POINT", "NEWG", "G2"}) for (auto n : {"X", "Y"}) for (auto& v : vals) A.push_back(opParam(g, n, pv(v), "d0", false, L));
        A.push_back(opParam("ANALOG", "X", pv("s22"), "d20", true, L)); A.push_back(opParam("NEWG", "X", pv("i7"), "d20", true, L)); A.push_back(opParam("POINT", "UNITS", pv("s1"), "d1", false, L));
        A.push_back(opParam("newg", "x", pv("f1"), "d1", false, L));
        A.push_back(opParam("POINT", "FRAMES", pv("ineg"), "d0", false, L)); A.push_back(opParam("NEWG", "FRAMES", pv("ineg"), "d0", false, L)); A.push_back(opParam("ANALOG", "USED", pv("i7"), "d0", false, L));   // maintained names given unusual but well-formed values: stored as given
        A.push_back(opParam("POINT", "Rate", pv("i7"), "d1", false, L)); A.push_back(opParam("NEWG", "x", pv("s2"), "d0", true, L));   // names that differ from an existing one by case only are other parameters
        for (auto g : {"G2", "G3", "G4", "G5", "G6", "G7"}) A.push_back(opParamFromStored(g, L));
        for (auto src : {"B3", "B22", "S42", "F23"}) { A.push_back(opParamCopyOfStored("EXTRA", src, "NEWG", "X")); A.push_back(opParamCopyOfStored("EXTRA", src, "POINT", "Y")); }
        for (auto g : {"POINT", "NEWG", "G2", "NOPE"}) { A.push_back(opLock(g, true)); A.push_back(opLock(g, false)); }
        A.push_back(opParamBad("NEWB", true, false)); A.push_back(opParamBad("POINT", false, true)); A.push_back(opParamBad("POINT", true, false));
        A.push_back(opParamMandatoryBad("POINT", "RATE", "string")); A.push_back(opParamMandatoryBad("POINT", "USED", "float")); A.push_back(opParamMandatoryBad("ANALOG", "USED", "empty-int"));
        A.push_back(opPoint("A", L)); A.push_back(opRate("POINT", 100.f)); A.push_back(opFrame("ok", "app", 0, L));
    } else if (name == "lookup") {  // C11: containers of every size 0..N
        L.maxFrames = thorough ? 3 : 2; L.maxPoints = thorough ? 3 : 2; L.maxChans = 2; L.maxGroups = 5; L.noColumnsOnGaps = true;
        for (auto n : {"A", "B", "A ", "b", "  ", "T\t", "a b", "S:A", "AB", "LShoulder_Marker", "RShoulder_Marker"}) A.push_back(opPoint(n, L));    // "S:A" / "AB": a name that ends / begins like another one; two long names one character apart
        for (auto n : {"a", "a ", "B", " ", "s:a", "EMG1_Left_Channel", "EMG1_Leff_Channel"}) A.push_back(opAnalog(n, L));
        A.push_back(opRate("POINT", 100.f)); A.push_back(opRate("ANALOG", 200.f)); A.push_back(opRate("ANALOG", 100.f));
        A.push_back(opFrame("ok", "app", 0, L)); A.push_back(opFrame("ok", "n+1", 2, L));
        A.push_back(opParam("NEWG", "X", pv("i3"), "d0", false, L)); A.push_back(opParam("NEWG", "Y", pv("s2"), "d1", false, L)); A.push_back(opParam("G2", "x", pv("f1"), "d0", true, L));
        A.push_back(opParam("NEWG_CONTEXT", "XY", pv("i7"), "d0", false, L)); A.push_back(opParam("NEWG", "XY", pv("f1"), "d0", false, L));   // group / parameter names that extend another one, stored before or after it
        A.push_back(opColPoint("ok", 1, L)); A.push_back(opColAnalog("ok", 1, L));
        A.push_back(opReload());
    } else if (name == "build") {   // C01 / C03 / C14: construction histories
        g_conformingCallsOnly = true;
        L.maxFrames = 3; L.maxPoints = 3; L.maxChans = 2; L.maxGroups = 5; L.maxParamsPerGroup = 11; L.noColumnsOnGaps = true;
        for (auto n : {"A", "B", "C"}) A.push_back(opPoint(n, L));
        for (auto n : {"a", "b"}) A.push_back(opAnalog(n, L));
        for (float r : {50.f, 100.f}) A.push_back(opRate("POINT", r, L));
        for (float r : {100.f, 200.f, 400.f}) A.push_back(opRate("ANALOG", r, L));
        for (auto& m : menu) A.push_back(opParam("NEWG", "X", m, "d0", false, L));
        A.push_back(opParam("NEWG", "Y", pv("i22"), "d20", true, L)); A.push_back(opParam("POINT", "X", pv("s2"), "d127", false, L));
        A.push_back(opParam("G2", "Z", pv("f23"), "d1", false, L)); A.push_back(opParam("ANALOG", "Q", pv("i3"), "d0", true, L));
        if (thorough) { A.push_back(opParam("NEWG", "Y", pv("s22"), "d128", false, L)); A.push_back(opParam("G2", "W", pv("i7"), "d255", true, L)); }
        A.push_back(opLock("NEWG", true)); A.push_back(opLock("POINT", true)); A.push_back(opLock("POINT", false));
        A.push_back(opFrame("ok", "app", 0, L)); A.push_back(opFrame("ok", "app", 2, L)); A.push_back(opFrame("ok", "0", 1, L));
        A.push_back(opFrame("ok", "n+1", 0, L)); A.push_back(opFrame("addpoints", "0", 1, L)); A.push_back(opFrame("addanalogs", "0", 1, L));
        A.push_back(opColPoint("ok", 1, L)); A.push_back(opColAnalog("ok", 1, L));
        A.push_back(opParamMandatoryBad("POINT", "DATA_START", "int3")); A.push_back(opParamMandatoryBad("POINT", "DATA_START", "float"));   // the one parameter the writer patches: an array or another type cannot be written
        A.push_back(opBigObject(33, 17, 129)); A.push_back(opBigObject(65, 0, 17)); A.push_back(opBigObject(0, 33, 33)); A.push_back(opBigObject(50, 1, 130)); A.push_back(opBigObject(40, 3, 120)); A.push_back(opBulkPoints(17));   // (analog samples per frame = 34, 33, 2, 6: every residue of the fill level modulo 4 at the 64 KiB mark)   // counts beyond the shape guards (and more than 64 KiB of data), reached by repeating one call
        A.push_back(opParamCopyOfStored("NEWG", "X", "NEWG", "XR")); A.push_back(opParamCopyOfStored("NEWG", "X", "G2", "X")); A.push_back(opParam("lower_case_grp", "the_quick_brown_fox_jumps_over_a_lazy_dog_0189", pv("i7"), "d1", false, L));   // a stored parameter copied out, renamed and added again; every lower-case letter in a name
        A.push_back(opSubmitStored(0, "n", L)); A.push_back(opSubmitStored(0, "n+1", L)); A.push_back(opSubmitStored(0, "app", L));   // a stored frame handed back (append / past the end), then columns and a save
        A.push_back(opReload());
        // objects with many frames are expensive to dump, save and reload: from them only a handful of calls go on (reload, one parameter, one column of each kind, a lock)
        for (auto& op : A) { bool keep = op.name == "reload" || op.name.compare(0, 17, "param(NEWG:X=i7,") == 0 || op.name == "point(frames:ok,v1)" || op.name == "analog(frames:ok,v1)" || op.name == "lockGroup(NEWG)";
            if (!keep) { auto e = op.enabled; op.enabled = [e](const World& w, const WSnap& sn) { return sn.o.frames.size() <= 8 && e(w, sn); }; } }
    } else if (name == "loaded") {  // C05 / C06 / C07 / C10: every editing call on objects LOADED from every single-deviation generated file (roots below)
        L.maxFrames = 4; L.maxPoints = 4; L.maxChans = 4; L.noColumnsOnGaps = true; L.documentedDevsOnly = true; L.noDuplicateDeclarations = true; L.noRateEditWithData = true; L.integerRateRatioOnly = true;
        A.push_back(opPoint("NEWP", L)); A.push_back(opAnalog("newc", L));
        for (auto t : {"app", "0", "n+1"}) A.push_back(opFrame("ok", t, 1, L));
        for (auto d : {"pt_missing", "pt_renamed", "ch_extra"}) A.push_back(opFrame(d, "app", 0, L));
        A.push_back(opFrame("sub_extra", "0", 1, L)); A.push_back(opFrame("sub_missing", "0", 1, L));
        for (auto d : {"ok", "dup", "fewer"}) A.push_back(opColPoint(d, 1, L));
        for (auto d : {"ok", "dup", "sub_fewer"}) A.push_back(opColAnalog(d, 1, L));
        A.push_back(opSubmitStored(0, "n", L));
        A.push_back(opParam("NEWG", "X", pv("i3"), "d1", false, L)); A.push_back(opParam("POINT", "X", pv("s2"), "d0", true, L)); A.push_back(opParam("EXTRA", "I22", pv("f23"), "d1", false, L));
        A.push_back(opParamBad("NEWB", true, false)); A.push_back(opParamMandatoryBad("POINT", "RATE", "int")); A.push_back(opParamMandatoryBad("ANALOG", "USED", "string"));
        A.push_back(opRate("POINT", 50.f, L)); A.push_back(opRate("ANALOG", 100.f, L));
        A.push_back(opLock("POINT", true)); A.push_back(opLock("EXTRA", false));
        A.push_back(opReload());
    } else if (name == "wild") {    // C10 / C13 / C08 / C11 hold for EVERY call, also those the other statements exclude: the mutator alphabet without any shape guard
        L.maxFrames = 3; L.maxPoints = 3; L.maxChans = 2;
        for (auto n : {"A", "B", "A "}) A.push_back(opPoint(n, L));
        for (auto n : {"a", "b"}) A.push_back(opAnalog(n, L));
        for (float r : {0.f, 50.f, 100.f}) A.push_back(opRate("POINT", r, L));
        for (float r : {0.f, 100.f, 20.f}) A.push_back(opRate("ANALOG", r, L));
        A.push_back(opParam("NEWG", "X", pv("i3"), "d0", false, L)); A.push_back(opParam("POINT", "LABELS", pv("s2"), "d0", false, L)); A.push_back(opParam("POINT", "USED", pv("i7"), "d0", false, L)); A.push_back(opParam("ANALOG", "USED", pv("i7"), "d0", false, L)); A.push_back(opParam("POINT", "FRAMES", pv("i7"), "d0", false, L));   // hand-edited mandatory parameters
        for (auto d : {"ok", "pt_missing", "pt_extra", "pt_renamed", "pt_dup", "pt_perm", "pt_none", "ch_missing", "ch_extra", "ch_renamed", "sub_missing", "sub_extra", "sub_ragged", "an_none", "empty"}) for (auto t : {"app", "0", "n+1"}) A.push_back(opFrame(d, t, 1, L));
        for (auto w : {"both", "pt", "an"}) A.push_back(opFrameFree(w, 0, L));
        A.push_back(opFrameEmpty(L));
        A.push_back(opSubmitStored(0, "n", L)); A.push_back(opSubmitStored(1, "0", L));
        for (auto d : {"ok", "ok2", "fewer", "more", "none", "nocol", "dup", "dup2", "ragged"}) A.push_back(opColPoint(d, 0, L));
        for (auto d : {"ok", "ok2", "fewer", "more", "none", "nocol", "sub_fewer", "sub_more", "dup", "dup2", "ragged"}) A.push_back(opColAnalog(d, 0, L));
        A.push_back(opParamBad("NEWB", true, false)); A.push_back(opParamBad("POINT", false, true));
        A.push_back(opParamMandatoryBad("POINT", "RATE", "int")); A.push_back(opParamMandatoryBad("ANALOG", "USED", "string")); A.push_back(opParamMandatoryBad("POINT", "LABELS", "int")); A.push_back(opParamMandatoryBad("ANALOG", "RATE", "empty-float"));
        A.push_back(opParamMandatoryBad("POINT", "DATA_START", "int3")); A.push_back(opParamMandatoryBad("ANALOG", "SCALE", "empty-int")); A.push_back(opParamMandatoryBad("ANALOG", "UNITS", "empty-int")); A.push_back(opParamMandatoryBad("POINT", "LABELS", "empty-float")); A.push_back(opParamMandatoryBad("ANALOG", "OFFSET", "empty-float"));   // empty AND of the wrong type
        A.push_back(opLock("NOPE", true));
        A.push_back(opReload());
    } else if (name == "smoke") {
        A.push_back(opPoint("A", L)); A.push_back(opRate("POINT", 100.f)); A.push_back(opFrame("ok", "app", 0, L));
    } else { fprintf(stderr, "unknown alphabet %s\n", name.c_str()); exit(2); }
    return A;
}

// ---- JSON helpers ---------------------------------------------------------------------------------
static std::string jstr(const std::string& s) {
    std::string o = "\"";
    for (unsigned char c : s) { if (c == '"' || c == '\\') { o += '\\'; o += (char)c; } else if (c == '\n') o += "\\n"; else if (c == '\t') o += "\\t"; else if (c < 32 || c > 126) { char b[8]; snprintf(b, sizeof b, "\\u%04x", c); o += b; } else o += (char)c; }
    return o + "\"";
}

int main(int argc, char** argv) {
    std::string alphabet = "smoke", oracles, scratch, out, replayStr, tier = "quick", saveFile, transcript; int depth = 3, workers = 16; size_t maxStates = 3000000; double deadlineS = 1e9, hang = 30; bool list = false, dump = false;
    for (int i = 1; i < argc; ++i) {
        std::string a = argv[i]; auto nxt = [&]() { if (i + 1 >= argc) { fprintf(stderr, "missing value for %s\n", a.c_str()); exit(2); } return std::string(argv[++i]); };
        if (a == "--alphabet") alphabet = nxt(); else if (a == "--oracles") oracles = nxt(); else if (a == "--depth") depth = atoi(nxt().c_str()); else if (a == "--workers") workers = atoi(nxt().c_str());
        else if (a == "--maxstates") maxStates = (size_t)atoll(nxt().c_str()); else if (a == "--deadline") deadlineS = atof(nxt().c_str()); else if (a == "--scratch") scratch = nxt(); else if (a == "--out") out = nxt();
        else if (a == "--replay") replayStr = nxt(); else if (a == "--tier") tier = nxt(); else if (a == "--list") list = true; else if (a == "--dump") dump = true; else if (a == "--hang") hang = atof(nxt().c_str()); else if (a == "--savefile") saveFile = nxt(); else if (a == "--transcript") transcript = nxt();
        else { fprintf(stderr, "unknown arg %s\n", a.c_str()); return 2; }
    }
#ifdef VF_ASAN
    __asan_set_error_report_callback(sanCallback);
#endif
    if (scratch.empty()) { scratch = "/dev/shm/ezc3d-verif." + std::to_string(getpid()); }
    mkdir(scratch.c_str(), 0755);
    Explorer E; Limits L; E.ops = buildAlphabet(alphabet, L, tier); E.orc = parseOracles(oracles); E.scratch = scratch; E.workers = workers; E.maxDepth = depth; E.maxStates = maxStates;
    E.deadline = Explorer::now() + deadlineS; E.hangSecs = hang; E.alphabetName = alphabet; E.transcriptPath = transcript; if (!transcript.empty()) unlink(transcript.c_str());
    // root ops: objects loaded from generated files (load-then-edit states), enabled in the initial state only
    {
        std::vector<std::pair<std::string, std::string>> roots;
        if (alphabet == "frames") roots = {{"events", "events=2;first=5"}, {"noanalog", "agroup=empty;chans=0;points=1"}, {"first3", "first=3;chans=0"}};   // first frame number 3: header window 2..3 overlaps the indices count, count+1
        if (alphabet == "mut") roots = {{"events", "events=2;first=5"}, {"sparse", "ids=sparse;extra=all;order=paramsFirst"}, {"zeros", "zeros=7;prologue=0000;frames=1"}, {"noanalog", "agroup=empty;chans=0;points=1"}, {"onechan", "chans=1;points=1;frames=1"}, {"minimal", "optparams=minimal;chans=1;points=1;frames=1"}, {"analogonly", "points=0;frames=1"}};   // onechan: room for one more point and channel on a LOADED object (whose ANALOG group has no DESCRIPTIONS)
        if (alphabet == "c07") roots = {{"onechan", "chans=1;points=1;frames=1"}};
        if (alphabet == "wild") roots = {{"onechan", "chans=1;points=1;frames=1"}, {"noanalog", "agroup=empty;chans=0;points=1"}, {"labels", "labels=fewer;alabels=more"}};
        if (alphabet == "build") roots = {{"events", "events=18;first=705"}, {"extra", "extra=all;descs=d127;locks=yes"}, {"str1d", "extra=str1d;ids=swapped"}, {"labels", "labels=more;alabels=fewer;points=3"}, {"noanalog", "agroup=empty;chans=0"}, {"block3", "pblock=3;zeros=1"}, {"analogonly", "points=0;frames=1"}, {"pointonly", "chans=0;frames=1"}};   // analogonly/pointonly: the other kind of data arrives by REPLACING the single stored frame
        if (alphabet == "params") roots = {{"described", "extra=all;locks=yes"}, {"sparse", "ids=sparse"}};
        if (alphabet == "lookup") roots = {{"labels", "labels=fewer;alabels=more;points=3"}, {"events", "events=2"}};
        if (alphabet == "loaded") {   // the default file and every file that differs from it in ONE generator dimension (thorough: also the listed pairs that put an unusual parameter section under an unusual shape)
            roots.push_back({"default", "default"});
            for (auto& d : gen::dims(false)) for (size_t a = 1; a < d.alts.size(); ++a) { if (d.name == "points" && d.alts[a] == "255") continue; roots.push_back({d.name + "=" + d.alts[a], d.name + "=" + d.alts[a]}); }
            for (auto x : {"points=0;optparams=nolabels", "chans=0;optparams=nolabels", "points=0;frames=1", "chans=0;frames=1", "points=0;optparams=nolabels;frames=0", "chans=0;optparams=nolabels;frames=0"}) roots.push_back({x, x});   // (…;frames=0: template files, nothing stored yet)
            if (tier == "thorough") for (auto sh : {"points=1", "chans=1", "frames=1", "points=0", "chans=0", "frames=0"}) for (auto ps : {"optparams=minimal", "optparams=rich", "agroup=empty", "labels=fewer", "labels=more", "alabels=fewer", "alabels=more", "rates=0x1", "datastart=absent", "extra=none", "locks=yes", "first=705"}) roots.push_back({std::string(sh) + ";" + ps, std::string(sh) + ";" + ps});
        }
        std::string rdir = scratch + "/roots"; mkdir(rdir.c_str(), 0755);
        for (auto& r : roots) { gen::Content c; gen::Layout l; if (!gen::apply(gen::parseChoice(r.second), c, l)) continue; std::string b = gen::encode(c, l); std::string p = rdir + "/" + r.first + ".c3d"; FILE* f = fopen(p.c_str(), "wb"); fwrite(b.data(), 1, b.size(), f); fclose(f); E.rootOps.push_back((int)E.ops.size()); E.ops.push_back(opLoadRoot(r.first + ":" + r.second, p)); }
    }
    if (list) { for (auto& o : E.ops) printf("%s\n", o.name.c_str()); return 0; }

    if (!replayStr.empty() || dump) {     // linear replay without the explorer
        Explorer::Hist h; std::stringstream ss(replayStr); std::string t;
        std::vector<std::string> names; { size_t a = 0; while (a <= replayStr.size()) { size_t b = replayStr.find(" ; ", a); std::string x = replayStr.substr(a, b == std::string::npos ? std::string::npos : b - a); if (!x.empty()) names.push_back(x); if (b == std::string::npos) break; a = b + 3; } }
        for (auto& n : names) { int id = -1; for (size_t i = 0; i < E.ops.size(); ++i) if (E.ops[i].name == n) id = (int)i; if (id < 0) { fprintf(stderr, "op '%s' not in alphabet %s\n", n.c_str(), alphabet.c_str()); return 2; } h.push_back((uint16_t)id); }
        World w(scratch); Sink sink; Stats st; int nviol = 0;
        for (size_t i = 0; i <= h.size(); ++i) {
            WSnap pre = snapWorld(w);
            { Sink s2; E.stateOracles(w, pre, s2, st, nullptr); for (auto& v : s2) { printf("  STATE-VIOLATION after step %zu: %s %s :: %s\n", i, v.prop.c_str(), v.sig.c_str(), v.detail.c_str()); nviol++; } }
            if (i == h.size()) { if (dump) printf("%s", pre.text.c_str()); if (!saveFile.empty()) guarded([&] { w.c->write(saveFile); }); break; }
            const Op& op = E.ops[h[i]]; CallInfo ci; std::string what; Outcome oc = guarded([&] { op.apply(w, pre, ci); }, &what);
            WSnap post = snapWorld(w);
            printf("step %zu: %s -> %s%s%s\n", i + 1, op.name.c_str(), outcomeName(oc), what.empty() ? "" : " : ", what.c_str());
            Sink s3; E.transitionOracles(pre, ci, oc, post, w, op, s3, st);
            for (auto& v : s3) { printf("  TRANSITION-VIOLATION at step %zu: %s %s :: %s\n", i + 1, v.prop.c_str(), v.sig.c_str(), v.detail.c_str()); nviol++; }
            std::string rep = takeSanitizerReport(); if (!rep.empty()) { printf("  SANITIZER report at step %zu:\n%s\n", i + 1, rep.substr(0, 1500).c_str()); nviol++; }
        }
        printf("replay: %d violation(s)\n", nviol);
        return nviol ? 1 : 0;
    }

    double t0 = Explorer::now();
    Explorer::Result R = E.run();
    double wall = Explorer::now() - t0;
    FILE* f = out.empty() ? stdout : fopen(out.c_str(), "w");
    fprintf(f, "{\n \"alphabet\": %s, \"oracles\": %s, \"tier\": %s, \"ops\": %zu, \"depth_bound\": %d, \"depth_completed\": %d, \"fixpoint\": %s, \"capped\": %s, \"deadline_hit\": %s,\n",
            jstr(alphabet).c_str(), jstr(oracles).c_str(), jstr(tier).c_str(), E.ops.size(), depth, R.depthCompleted, R.fixpoint ? "true" : "false", R.capped ? "true" : "false", R.deadlineHit ? "true" : "false");
    fprintf(f, " \"states\": %zu, \"transitions\": %llu, \"executions\": %llu, \"refused\": %llu, \"restarts\": %d, \"harness_errors\": %llu, \"wall_s\": %.2f,\n", R.states,
            (unsigned long long)R.st.transitions, (unsigned long long)R.st.executions, (unsigned long long)R.st.refused, R.restarts, (unsigned long long)R.st.harnessErrors, wall);
    fprintf(f, " \"levels\": ["); for (size_t i = 0; i < R.levels.size(); ++i) fprintf(f, "%s%zu", i ? "," : "", R.levels[i]); fprintf(f, "],\n");
    fprintf(f, " \"outcomes\": {"); { bool first = true; for (int i = 0; i < N_OUTCOMES; ++i) if (R.st.outcomes[i]) { fprintf(f, "%s\"%s\": %llu", first ? "" : ", ", outcomeName(i), (unsigned long long)R.st.outcomes[i]); first = false; } } fprintf(f, "},\n");
    fprintf(f, " \"probes\": {\"c01\": %llu, \"c01_skipped\": %llu, \"c03\": %llu, \"c03_skipped\": %llu, \"c14\": %llu, \"lookups\": %llu, \"c07_must_accept\": %llu, \"c07_must_refuse\": %llu, \"c07_dont_care\": %llu, \"san_reports\": %llu},\n",
            (unsigned long long)R.st.probes01, (unsigned long long)R.st.skipped01, (unsigned long long)R.st.probes03, (unsigned long long)R.st.skipped03, (unsigned long long)R.st.probes14, (unsigned long long)R.st.lookups,
            (unsigned long long)R.st.c07accept, (unsigned long long)R.st.c07refuse, (unsigned long long)R.st.c07dontcare, (unsigned long long)R.st.sanReports);
    fprintf(f, " \"samples\": ["); for (size_t i = 0; i < R.samples.size(); ++i) fprintf(f, "%s%s", i ? ", " : "", jstr(E.histText(R.samples[i])).c_str()); fprintf(f, "],\n");
    fprintf(f, " \"violations\": [\n"); { bool first = true; for (auto& kv : R.viols) { auto& v = kv.second; fprintf(f, "%s  {\"prop\": %s, \"sig\": %s, \"detail\": %s, \"history\": %s, \"count\": %llu}", first ? "" : ",\n", jstr(v.prop).c_str(), jstr(v.sig).c_str(), jstr(v.detail).c_str(), jstr(E.histText(v.hist)).c_str(), (unsigned long long)v.count); first = false; } } fprintf(f, "\n ],\n");
    fprintf(f, " \"crashes\": [\n"); for (size_t i = 0; i < R.crashes.size(); ++i) { auto& c = R.crashes[i]; Explorer::Hist h = c.hist; std::string at = c.op >= 0 ? E.ops[c.op].name : (c.op == -1 ? "<state probe>" : "?"); std::string cls = c.op >= 0 ? E.ops[c.op].cls : "state-probe";
        fprintf(f, "%s  {\"kind\": %s, \"history\": %s, \"at\": %s, \"opclass\": %s, \"stderr\": %s}", i ? ",\n" : "", jstr(c.kind).c_str(), jstr(E.histText(h)).c_str(), jstr(at).c_str(), jstr(cls).c_str(), jstr(c.detail).c_str()); } fprintf(f, "\n ],\n");
    fprintf(f, " \"san_reports\": [\n"); { size_t lim = std::min<size_t>(R.sanReports.size(), 400); for (size_t i = 0; i < lim; ++i) fprintf(f, "%s  {\"history\": %s, \"report\": %s}", i ? ",\n" : "", jstr(E.histText(R.sanReports[i].first)).c_str(), jstr(R.sanReports[i].second.substr(0, 3000)).c_str()); } fprintf(f, "\n ],\n");
    fprintf(f, " \"quarantined_ops\": ["); for (size_t i = 0; i < R.quarantined.size(); ++i) fprintf(f, "%s%s", i ? ", " : "", jstr(E.ops[R.quarantined[i]].name).c_str()); fprintf(f, "],\n");
    fprintf(f, " \"san_reports_total\": %zu, \"digests_file\": %s\n}\n", R.sanReports.size(), jstr(scratch + "/digests.txt").c_str());
    if (f != stdout) fclose(f);
    return 0;
}
