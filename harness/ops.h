// ops.h — the operation alphabets of engine A. Every op is a real public-API call on the World's object.
#pragma once
#include "world.h"
#include <cstdio>
#include <fcntl.h>

namespace vf {

enum Kind { K_POINT_NAME, K_ANALOG_NAME, K_PARAM, K_LOCK, K_UNLOCK, K_FRAME, K_COL_POINT, K_COL_ANALOG, K_RELOAD, K_SAVE, K_PRINT,
            K_REG_BUILD, K_REG_MUT, K_REG_EXT, K_EDIT_STORED, K_LOAD_ROOT, K_PARAM_UNTYPED, K_BULK };

struct CallInfo {
    Kind kind = K_PRINT;
    std::string name;                 // point / channel / group name
    // frame call
    FrSnap given; bool append = false; size_t idx = 0; int reg = -1;
    std::vector<FrSnap> givenFrames;  // column adders
    // parameter call
    std::string group; PSnap givenParam; bool typed = true;
    std::string dev;                  // deviation tag (for signatures / statistics only; verdicts never depend on it)
    size_t editFrame = 0;
};

struct Op {
    std::string name;   // unique text id inside an alphabet; stable across runs (used in replay files)
    std::string cls;    // coarse class for signatures
    std::function<bool(const World&, const WSnap&)> enabled;
    std::function<void(World&, const WSnap&, CallInfo&)> apply;   // fills CallInfo, then performs the call (may throw)
};

struct Limits { size_t maxFrames = 3, maxPoints = 3, maxChans = 2, maxGroups = 6, maxParamsPerGroup = 12; bool noColumnsOnGaps = false; bool emptyFrameOnlyWhenBlank = false; bool documentedDevsOnly = false; bool noDuplicateDeclarations = false; bool noRateEditWithData = false; bool integerRateRatioOnly = false; };
inline bool hasGap(const WSnap& s) { for (auto& f : s.o.frames) if (f.empty()) return true; return false; }

inline Param mkRate(float v) { Param p("RATE"); p.set(std::vector<float>() = {v}); return p; }

// ---- parameter value menu ------------------------------------------------------------------------
struct PVal { std::string id; std::function<void(Param&)> set; };
inline std::vector<PVal> paramMenu() {
    std::vector<PVal> m;
    m.push_back({"i7", [](Param& p) { p.set(7); }});
    m.push_back({"i3", [](Param& p) { p.set(std::vector<int>() = {1, -2, 32767}); }});
    m.push_back({"i22", [](Param& p) { p.set(std::vector<int>() = {1, 2, 3, 4}, {2, 2}); }});
    m.push_back({"i23", [](Param& p) { p.set(std::vector<int>() = {1, 2, 3, 4, 5, 6}, {2, 3}); }});
    m.push_back({"ie", [](Param& p) { p.set(std::vector<int>() = {}); }});
    m.push_back({"i0", [](Param& p) { p.set(std::vector<int>() = {}, {0}); }});
    m.push_back({"i20", [](Param& p) { p.set(std::vector<int>() = {}, {2, 0}); }});
    m.push_back({"f1", [](Param& p) { p.set(2.5f); }});
    m.push_back({"f23", [](Param& p) { p.set(std::vector<float>() = {bitsf(0x80000000u), bitsf(0x00000001u), bitsf(0x7f800000u), bitsf(0x7fc00001u), -1.5f, 1e30f}, {2, 3}); }});
    m.push_back({"fe", [](Param& p) { p.set(std::vector<float>() = {}); }});
    m.push_back({"s1", [](Param& p) { p.set(std::string("hello")); }});
    m.push_back({"s2", [](Param& p) { p.set(std::vector<std::string>() = {"ab", "wxyz"}); }});
    m.push_back({"s22", [](Param& p) { p.set(std::vector<std::string>() = {"a", "bc", "def", ""}, {2, 2}); }});
    m.push_back({"s0", [](Param& p) { p.set(std::vector<std::string>() = {""}); }});
    m.push_back({"se", [](Param& p) { p.set(std::vector<std::string>() = {}); }});
    m.push_back({"i321", [](Param& p) { p.set(std::vector<int>() = {1, 2, 3, 4, 5, 6}, {3, 2, 1}); }});
    m.push_back({"i9", [](Param& p) { p.set(std::vector<int>() = {-32768, 32767, 255, 256, 127, 128, -1, -128, -129}, {3, 3}); }});   // 8- and 16-bit boundaries
    m.push_back({"fz+", [](Param& p) { p.set(std::vector<float>() = {0.0f, 1.0f, 0.0f}); }});     // the same values up to the SIGN OF ZERO:
    m.push_back({"fz-", [](Param& p) { p.set(std::vector<float>() = {-0.0f, 1.0f, 0.0f}); }});    // a replacement by one of them must not be taken for "no change"
    m.push_back({"i11", [](Param& p) { p.set(std::vector<int>() = {-5}, {1, 1}); }});                       // one value, two dimensions
    m.push_back({"f111", [](Param& p) { p.set(std::vector<float>() = {6.5f}, {1, 1, 1}); }});
    m.push_back({"sctl", [](Param& p) { p.set(std::vector<std::string>() = {"tab\t", "cr\r\n", "x y", "\f"}); }});   // control white-space is content, only spaces are padding
    // a parameter that went through a REFUSED reshape before it is handed over (the refused call must have left it as it was)
    m.push_back({"i2r", [](Param& p) { p.set(std::vector<int>() = {4, 5}); try { p.set(std::vector<int>() = {4, 5}, {30}); } catch (const std::range_error&) { } }});
    m.push_back({"f2r", [](Param& p) { p.set(std::vector<float>() = {4.5f, 5.5f}); try { p.set(std::vector<float>() = {4.5f, 5.5f}, {3, 7}); } catch (const std::range_error&) { } try { p.set(std::vector<std::string>() = {"a"}, {5}); } catch (const std::range_error&) { } }});
    m.push_back({"ineg", [](Param& p) { p.set(std::vector<int>() = {-3, 7}); }});            // a negative FIRST value
    m.push_back({"fsnan", [](Param& p) { p.set(bitsf(0x7fa00000u)); }});    // scalar overloads with a SIGNALLING NaN (an arithmetic conversion on the way would quiet it)
    m.push_back({"dsnan", [](Param& p) { p.set(std::vector<float>() = {bitsf(0x7fa00001u), bitsf(0xffa00000u)}); }});
    m.push_back({"s11", [](Param& p) { p.set(std::vector<std::string>() = {"solo"}, {1, 1}); }});
    return m;
}
inline std::string descMenu(const std::string& id) {
    if (id == "d0") return "";
    if (id == "d1") return "d";
    if (id == "d20") return "a Description, 20 ch";
    if (id == "d127") return std::string(127, 'q');
    if (id == "d128") return std::string(128, 'r');
    if (id == "d255") return std::string(255, 's');
    return "";
}

// ---- op constructors -----------------------------------------------------------------------------
inline size_t nLabels(const WSnap& s, const char* g) { return pStrs(s.o, g, "LABELS").size(); }

inline Op opPoint(const std::string& nm, const Limits& L) {
    Op o; o.name = "point(\"" + nm + "\")"; o.cls = "point(name)";
    o.enabled = [L, nm](const World&, const WSnap& s) { if (L.noColumnsOnGaps && hasGap(s)) return false; Shape sh = declaredShape(s.o);
        if (L.noDuplicateDeclarations) { std::string t = nm; vf::trimSpaces(t); for (auto& x : sh.pts) { std::string y = x; vf::trimSpaces(y); if (y == t) return false; } }
        return sh.pts.size() < L.maxPoints; };
    o.apply = [nm](World& w, const WSnap&, CallInfo& ci) { ci.kind = K_POINT_NAME; ci.name = nm; w.c->point(nm); };
    return o;
}
inline Op opAnalog(const std::string& nm, const Limits& L) {
    Op o; o.name = "analog(\"" + nm + "\")"; o.cls = "analog(name)";
    o.enabled = [L, nm](const World&, const WSnap& s) { if (L.noColumnsOnGaps && hasGap(s)) return false; Shape sh = declaredShape(s.o);
        if (L.noDuplicateDeclarations) { std::string t = nm; vf::trimSpaces(t); for (auto& x : sh.chans) { std::string y = x; vf::trimSpaces(y); if (y == t) return false; } }
        return sh.chans.size() < L.maxChans; };
    o.apply = [nm](World& w, const WSnap&, CallInfo& ci) { ci.kind = K_ANALOG_NAME; ci.name = nm; w.c->analog(nm); };
    return o;
}
inline std::string fstr(float v) { char b[32]; snprintf(b, sizeof b, "%g", (double)v); return b; }
inline Op opRate(const char* grp, float v, const Limits& L = Limits()) {
    Op o; o.name = std::string(grp) + ":RATE=" + fstr(v); o.cls = "param(rate)";
    std::string g = grp;
    o.enabled = [g, v, L](const World& w, const WSnap& s) {
        if (L.noRateEditWithData && (!s.o.frames.empty() || w.Rset[0] || w.Rset[1])) return false;   // a rate edit would make stored / prepared frames disagree with the new ratio
        if (L.integerRateRatioOnly) {   // C3D: the analog rate is an integer multiple (>= 1) of the point rate; a caller who sets another ratio made the object inconsistent himself
            float pr = g == "POINT" ? v : pFloat(s.o, "POINT", "RATE"), ar = g == "ANALOG" ? v : pFloat(s.o, "ANALOG", "RATE");
            if (pr != 0.0f && ar != 0.0f) { float q = ar / pr; if (q < 1.0f || q != (float)(long)q) return false; }
        }
        return fbits(pFloat(s.o, g.c_str(), "RATE", -12345.f)) != fbits(v); };
    o.apply = [g, v](World& w, const WSnap&, CallInfo& ci) {
        ci.kind = K_PARAM; ci.group = g; Param p = mkRate(v); ci.givenParam = snapParam(p); w.c->parameter(g, p);
    };
    return o;
}
inline Op opParam(const std::string& grp, const std::string& pname, const PVal& pv, const std::string& descId, bool lock, const Limits& L) {
    Op o; o.name = "param(" + grp + ":" + pname + "=" + pv.id + "," + descId + (lock ? ",L" : "") + ")"; o.cls = "param";
    o.enabled = [grp, pname, L](const World&, const WSnap& s) {
        const GSnap* g = s.o.group(grp);
        if (!g) return s.o.groups.size() < L.maxGroups;
        if (g->find(pname)) return true;
        return g->params.size() < L.maxParamsPerGroup;
    };
    o.apply = [grp, pname, pv, descId, lock](World& w, const WSnap&, CallInfo& ci) {
        ci.kind = K_PARAM; ci.group = grp; Param p(pname, descMenu(descId)); pv.set(p); if (lock) p.lock();
        ci.givenParam = snapParam(p); w.c->parameter(grp, p);
    };
    return o;
}
inline Op opParamBad(const std::string& grp, bool named, bool typed) {   // partly invalid parameter calls (documented refusals)
    Op o; o.name = std::string("paramBad(") + grp + (named ? ",named" : ",unnamed") + (typed ? ",typed" : ",untyped") + ")"; o.cls = "param(bad)";
    o.enabled = [](const World&, const WSnap&) { return true; };
    o.apply = [grp, named, typed](World& w, const WSnap&, CallInfo& ci) {
        ci.kind = K_PARAM_UNTYPED; ci.group = grp; ci.typed = typed; Param p(named ? "Q" : ""); if (typed) p.set(5);
        ci.givenParam = snapParam(p); w.c->parameter(grp, p);
    };
    return o;
}
inline Op opParamFromStored(const std::string& grp, const Limits& L) {
    Op o; o.name = "param(" + grp + " <- ref to stored POINT:USED)"; o.cls = "param(self)";
    o.enabled = [grp, L](const World&, const WSnap& s) { const GSnap* g = s.o.group(grp); if (!g) return s.o.groups.size() < L.maxGroups + 4; return true; };
    o.apply = [grp](World& w, const WSnap& s, CallInfo& ci) {
        ci.kind = K_PARAM; ci.group = grp; const Param& ref = w.c->parameters().group("POINT").parameter("USED"); ci.givenParam = *s.o.group("POINT")->find("USED");
        w.c->parameter(grp, ref);
    };
    return o;
}
// a mandatory POINT/ANALOG parameter replaced by one the header update cannot use (wrong type, no value): the call must be refused as a whole
inline Op opParamMandatoryBad(const std::string& grp, const std::string& pname, const std::string& how) {
    Op o; o.name = "paramBad(" + grp + ":" + pname + " as " + how + ")"; o.cls = "param(bad-mandatory)";
    o.enabled = [grp](const World&, const WSnap& s) { const GSnap* g = s.o.group(grp); return g && !g->params.empty(); };   // (an ANALOG group left empty by the file is not "mandatory")
    o.apply = [grp, pname, how](World& w, const WSnap&, CallInfo& ci) {
        ci.kind = K_PARAM_UNTYPED; ci.group = grp; ci.dev = how; Param p(pname);
        if (how == "int3") p.set(std::vector<int>() = {1, 2, 3}); else if (how == "int") p.set(5); else if (how == "float") p.set(2.5f); else if (how == "string") p.set(std::string("x")); else if (how == "empty-int") p.set(std::vector<int>() = {}); else p.set(std::vector<float>() = {});
        ci.givenParam = snapParam(p); w.c->parameter(grp, p);
    };
    return o;
}
inline Op opLock(const std::string& grp, bool lock) {
    Op o; o.name = std::string(lock ? "lockGroup(" : "unlockGroup(") + grp + ")"; o.cls = lock ? "lockGroup" : "unlockGroup";
    o.enabled = [grp, lock](const World&, const WSnap& s) { const GSnap* g = s.o.group(grp); return !g || g->locked != lock; };
    o.apply = [grp, lock](World& w, const WSnap&, CallInfo& ci) { ci.kind = lock ? K_LOCK : K_UNLOCK; ci.name = grp; if (lock) w.c->lockGroup(grp); else w.c->unlockGroup(grp); };
    return o;
}

// frame deviations; "ok" conforms to the declared shape.
inline bool applyDev(Shape& sh, const std::string& dev) {   // returns false if the deviation is not applicable to this shape
    if (dev == "ok") return true;
    { size_t plus = dev.find('+'); if (plus != std::string::npos) return applyDev(sh, dev.substr(0, plus)) && applyDev(sh, dev.substr(plus + 1)); }   // two deviations at once
    if (dev == "pt_missing") { if (sh.pts.empty()) return false; sh.pts.pop_back(); return true; }
    if (dev == "pt_extra") { sh.pts.push_back("Z"); return true; }
    if (dev == "pt_renamed") { if (sh.pts.empty()) return false; sh.pts.back() = "Z"; return true; }
    if (dev == "pt_renamed_mid") { if (sh.pts.size() < 3) return false; sh.pts[1] = "Z"; return true; }
    if (dev == "pt_renamed_first") { if (sh.pts.size() < 2) return false; sh.pts.front() = "Z"; return true; }
    if (dev == "addpoints") { if (!sh.pts.empty() || sh.nsub == 0) return false; sh.pts = {"Y", "Z"}; return true; }        // a frame that brings its own points to an object without any (POINT:USED == 0)
    if (dev == "addanalogs") { if (sh.nsub != 0 || !sh.chans.empty() || sh.pts.empty()) return false; sh.chans = {"y"}; sh.nsub = 1; return true; }
    if (dev == "pt_dup") { if (sh.pts.size() < 2) return false; sh.pts.back() = sh.pts.front(); return true; }
    if (dev == "pt_perm") { if (sh.pts.size() < 2 || sh.pts[0] == sh.pts[1]) return false; std::swap(sh.pts[0], sh.pts[1]); return true; }
    if (dev == "pt_none") { if (sh.pts.empty()) return false; sh.pts.clear(); return true; }
    if (dev == "ch_missing") { if (sh.chans.empty() || sh.nsub == 0) return false; sh.chans.pop_back(); return true; }
    if (dev == "ch_extra") { if (sh.nsub == 0) return false; sh.chans.push_back("z"); return true; }
    if (dev == "ch_renamed") { if (sh.chans.empty() || sh.nsub == 0) return false; sh.chans.back() = "z"; return true; }
    if (dev == "sub_missing") { if (sh.nsub == 0) return false; sh.nsub--; return true; }
    if (dev == "sub_extra") { if (sh.chans.empty()) return false; sh.nsub++; return true; }
    if (dev == "sub_ragged") { if (sh.chans.empty() || sh.nsub < 2) return false; sh.raggedLast = true; return true; }   // first sub-frame as declared, the last one with an extra channel
    if (dev == "an_none") { if (sh.nsub == 0) return false; sh.nsub = 0; sh.chans.clear(); return true; }
    if (dev == "empty") { if (sh.pts.empty() && sh.nsub == 0) return false; sh.pts.clear(); sh.chans.clear(); sh.nsub = 0; return true; }
    return false;
}
// target: "app" append, "0", "last", "n" (=count), "n+1", "n+2"
inline bool targetIdx(const std::string& tgt, size_t n, bool& append, size_t& idx) {
    append = false; idx = 0;
    if (tgt == "app") { append = true; return true; }
    if (tgt == "0") { if (n == 0) return false; idx = 0; return true; }
    if (tgt == "1") { if (n < 3) return false; idx = 1; return true; }
    if (tgt == "last") { if (n < 2) return false; idx = n - 1; return true; }
    if (tgt == "n") { idx = n; return true; }
    if (tgt == "n+1") { idx = n + 1; return true; }
    if (tgt == "n+2") { idx = n + 2; return true; }
    return false;
}
inline size_t framesAfter(bool append, size_t idx, size_t n) { return append ? n + 1 : (idx >= n ? idx + 1 : n); }

inline Op opFrame(const std::string& dev, const std::string& tgt, int vs, const Limits& L) {
    Op o; o.name = "frame(" + dev + "," + tgt + ",v" + std::to_string(vs) + ")"; o.cls = "frame";
    o.enabled = [dev, tgt, L](const World&, const WSnap& s) {
        bool app; size_t idx; if (!targetIdx(tgt, s.o.frames.size(), app, idx)) return false;
        if (framesAfter(app, idx, s.o.frames.size()) > L.maxFrames) return false;
        Shape sh = declaredShape(s.o); if (dev == "ok" && sh.pts.empty() && sh.nsub == 0) return false;
        if ((dev == "addpoints" || dev == "addanalogs") && !(s.o.frames.size() == 1 && tgt == "0")) return false;   // only as the replacement of the single stored frame: the data set stays uniform
        if (dev == "addpoints" && pFloat(s.o, "POINT", "RATE") == 0.0f) return false;
        if (dev == "addanalogs" && (pFloat(s.o, "ANALOG", "RATE") == 0.0f || pInt(s.o, "ANALOG", "USED") != 0)) return false;
        if (L.documentedDevsOnly && dev.compare(0, 3, "pt_") == 0 && pInt(s.o, "POINT", "USED") <= 0) return false;
        if (L.documentedDevsOnly && dev.compare(0, 3, "ch_") == 0 && pInt(s.o, "ANALOG", "USED") <= 0) return false;
        if (L.documentedDevsOnly && dev.compare(0, 4, "sub_") == 0 && !(s.o.frames.size() == 1 && tgt == "0")) return false;
        if (L.documentedDevsOnly && dev == "sub_missing" && sh.nsub < 2) return false;   // (a frame left without any sub-frame is the undocumented deviation an_none, not a different sub-frame count)   // a different sub-frame count only as the replacement of the single stored frame: the data set stays uniform
        return applyDev(sh, dev);
    };
    o.apply = [dev, tgt, vs](World& w, const WSnap& s, CallInfo& ci) {
        ci.kind = K_FRAME; ci.dev = dev; targetIdx(tgt, s.o.frames.size(), ci.append, ci.idx);
        Shape sh = declaredShape(s.o); applyDev(sh, dev); Frame f = buildFrame(sh, vs); ci.given = intendedFrame(sh, vs);
        if (ci.append) w.c->frame(f); else w.c->frame(f, ci.idx);
    };
    return o;
}
// frame on an object where nothing is declared: names come from the frame
inline Op opFrameFree(const std::string& what, int vs, const Limits& L) {
    Op o; o.name = "frameFree(" + what + ",v" + std::to_string(vs) + ")"; o.cls = "frame";
    o.enabled = [L](const World&, const WSnap& s) { return nothingDeclared(s.o) && L.maxFrames >= 1; };
    o.apply = [what, vs](World& w, const WSnap& s, CallInfo& ci) {
        ci.kind = K_FRAME; ci.dev = "free:" + what; ci.append = true;
        Shape sh; if (what != "an") sh.pts = {"A", "B"}; if (what != "pt") { sh.chans = {"a"}; sh.nsub = s.o.h.subPerFrame ? s.o.h.subPerFrame : 1; }
        Frame f = buildFrame(sh, vs); ci.given = intendedFrame(sh, vs); w.c->frame(f);
    };
    return o;
}
inline Op opFrameEmpty(const Limits& L) {
    Op o; o.name = "frame(empty,app)"; o.cls = "frame";
    o.enabled = [L](const World&, const WSnap& s) { if (L.emptyFrameOnlyWhenBlank && !(nothingDeclared(s.o) || (declaredShape(s.o).pts.empty() && declaredShape(s.o).nsub == 0))) return false; return s.o.frames.size() < L.maxFrames; };
    o.apply = [](World& w, const WSnap&, CallInfo& ci) { ci.kind = K_FRAME; ci.dev = "emptyframe"; ci.append = true; Frame f; ci.given = snapFrame(f); w.c->frame(f); };
    return o;
}

// column adders. dev: ok | ok2 (two new columns) | fewer | more | none | nocol | sub_fewer | sub_more | dup | dup2 (second of two new names exists)
inline Op opColPoint(const std::string& dev, int vs, const Limits& L) {
    Op o; o.name = "point(frames:" + dev + ",v" + std::to_string(vs) + ")"; o.cls = "point(vector)";
    o.enabled = [dev, L](const World&, const WSnap& s) {
        if (L.noColumnsOnGaps && hasGap(s)) return false;
        Shape sh = declaredShape(s.o); size_t n = s.o.frames.size();
        size_t add = (dev == "ok2" || dev == "dup2") ? 2 : 1;
        if ((dev == "ok" || dev == "ok2") && (sh.pts.size() + add > L.maxPoints || n == 0)) return false;
        if (dev == "fewer" && n == 0) return false;
        if ((dev == "dup" || dev == "dup2") && (sh.pts.empty() || n == 0)) return false;
        if (dev == "nocol" && n == 0) return false;
        if (dev == "ragged" && n < 2) return false;
        if (dev == "surplus" && (n < 2 || sh.pts.size() + 1 > L.maxPoints)) return false;
        if (dev == "otherkind" && n == 0) return false;
        return true;
    };
    o.apply = [dev, vs](World& w, const WSnap& s, CallInfo& ci) {
        ci.kind = K_COL_POINT; ci.dev = dev; Shape have = declaredShape(s.o); size_t n = s.o.frames.size();
        std::vector<std::string> names;
        auto fresh = [&](int k) { const char* cand[] = {"N", "M", "N2", "M2", "N3", "M3", "N4", "M4"}; int seen = 0; for (auto c : cand) { if (std::find(have.pts.begin(), have.pts.end(), c) == have.pts.end()) { if (seen == k) return std::string(c); ++seen; } } return std::string("N9"); };
        if (dev == "ok" || dev == "fewer" || dev == "more" || dev == "none" || dev == "surplus") names = {fresh(0)};
        else if (dev == "ok2") names = {fresh(0), fresh(1)};
        else if (dev == "dup") names = {have.pts.front()};
        else if (dev == "dup2") names = {fresh(0), have.pts.back()};
        else if (dev == "nocol" || dev == "otherkind") names = {};
        if (dev == "ragged") names = {fresh(0), fresh(1)};
        size_t cnt = n; if (dev == "fewer") cnt = n - 1; if (dev == "more") cnt = n + 1; if (dev == "none") cnt = 0;
        std::vector<Frame> fr;
        for (size_t f = 0; f < cnt; ++f) { Shape sh; sh.pts = names; if (dev == "ragged" && f + 1 == cnt) sh.pts.pop_back();   // the last frame brings only the first of the two new points
            Frame x = buildFrame(sh, vs); for (size_t i = 0; i < sh.pts.size(); ++i) x.points_nonConst().point_nonConst(i).x(val(vs, i, 0) + 1000.0f * (float)(f + 1));
            if (dev == "otherkind") { Analogs A; SubFrame sf; Channel ch("stray"); ch.data(1.5f); sf.channel(ch); A.subframe(sf); x.add(A); }   // the frames bring NO point, only an analog channel: nothing of the asked kind is supplied
            if (dev == "surplus" && f + 1 == cnt) { Point extra; extra.name(fresh(1)); extra.x(4242.5f); x.points_nonConst().point(extra); }   // the LAST frame carries one point more than the column asked for by frame 0 (accepted, the surplus is not part of the column)
            fr.push_back(x); }
        for (size_t f = 0; f < fr.size(); ++f) { Shape sh; sh.pts = names; if (dev == "ragged" && f + 1 == fr.size()) sh.pts.pop_back(); FrSnap in = intendedFrame(sh, vs); for (size_t i = 0; i < sh.pts.size(); ++i) in.pts[i].v[0] = fbits(val(vs, i, 0) + 1000.0f * (float)(f + 1)); ci.givenFrames.push_back(in); }
        w.c->point(fr);
    };
    return o;
}
inline Op opColAnalog(const std::string& dev, int vs, const Limits& L) {
    Op o; o.name = "analog(frames:" + dev + ",v" + std::to_string(vs) + ")"; o.cls = "analog(vector)";
    o.enabled = [dev, L](const World&, const WSnap& s) {
        if (L.noColumnsOnGaps && hasGap(s)) return false;
        Shape sh = declaredShape(s.o); size_t n = s.o.frames.size();
        size_t add = (dev == "ok2" || dev == "dup2") ? 2 : 1;
        if ((dev == "ok" || dev == "ok2") && (sh.chans.size() + add > L.maxChans || n == 0)) return false;
        if (dev == "fewer" && n == 0) return false;
        if ((dev == "dup" || dev == "dup2") && (sh.chans.empty() || n == 0)) return false;
        if ((dev == "nocol" || dev == "sub_fewer" || dev == "sub_more") && n == 0) return false;
        if (dev == "sub_fewer" && s.o.h.subPerFrame == 0) return false;
        if (dev == "ragged" && (n < 2 || s.o.h.subPerFrame == 0)) return false;
        if (dev == "surplus" && (n < 2 || s.o.h.subPerFrame == 0 || sh.chans.size() + 1 > L.maxChans)) return false;
        if (dev == "otherkind" && n == 0) return false;
        return true;
    };
    o.apply = [dev, vs](World& w, const WSnap& s, CallInfo& ci) {
        ci.kind = K_COL_ANALOG; ci.dev = dev; Shape have = declaredShape(s.o); size_t n = s.o.frames.size();
        std::vector<std::string> names;
        auto fresh = [&](int k) { const char* cand[] = {"n", "m", "n2", "m2", "n3", "m3"}; int seen = 0; for (auto c : cand) { if (std::find(have.chans.begin(), have.chans.end(), c) == have.chans.end()) { if (seen == k) return std::string(c); ++seen; } } return std::string("n9"); };
        if (dev == "ok2" || dev == "ragged") names = {fresh(0), fresh(1)};
        else if (dev == "dup") names = {have.chans.front()};
        else if (dev == "dup2") names = {fresh(0), have.chans.back()};
        else if (dev == "nocol" || dev == "otherkind") names = {};
        else names = {fresh(0)};
        size_t cnt = n; if (dev == "fewer") cnt = n - 1; if (dev == "more") cnt = n + 1; if (dev == "none") cnt = 0;
        size_t nsub = s.o.h.subPerFrame; { Shape cur = declaredShape(s.o); bool filled = false; for (auto& f : s.o.frames) if (!f.empty()) filled = true; if (filled && cur.nsub > 0) nsub = cur.nsub; }   // what the data set really holds
        if (dev == "sub_fewer") nsub--; if (dev == "sub_more") nsub++;
        std::vector<Frame> fr;
        for (size_t f = 0; f < cnt; ++f) {
            Shape sh; sh.chans = names; sh.nsub = nsub; if (dev == "ragged" && f + 1 == cnt) sh.chans.pop_back();
            Frame x = buildFrame(sh, vs);
            for (size_t sf = 0; sf < nsub; ++sf) for (size_t k = 0; k < sh.chans.size(); ++k) x.analogs_nonConst().subframe_nonConst(sf).channel_nonConst(k).data(aval(vs, sf, k) - 1000.0f * (float)(f + 1));
            if (dev == "otherkind") { Points P; Point pt("stray"); pt.x(2.5f); P.point(pt); x.add(P); }   // the right number of (empty) sub-frames and a point: no channel is supplied
            if (dev == "surplus" && f + 1 == cnt && nsub) { Channel extra; extra.name(fresh(1)); extra.data(-4242.5f); x.analogs_nonConst().subframe_nonConst(nsub - 1).channel(extra); }   // the last sub-frame of the LAST frame carries one channel more than the column
            fr.push_back(x);
        }
        for (size_t f = 0; f < fr.size(); ++f) { Shape sh; sh.chans = names; sh.nsub = nsub; if (dev == "ragged" && f + 1 == fr.size()) sh.chans.pop_back(); FrSnap in = intendedFrame(sh, vs); for (size_t sf = 0; sf < nsub; ++sf) for (size_t k = 0; k < sh.chans.size(); ++k) in.subs[sf][k].v = fbits(aval(vs, sf, k) - 1000.0f * (float)(f + 1)); ci.givenFrames.push_back(in); }
        w.c->analog(fr);
    };
    return o;
}

inline void silencedPrint(const C3D& c) {
    fflush(stdout); std::cout.flush();
    int saved = dup(1); int nul = open("/dev/null", O_WRONLY); dup2(nul, 1); close(nul);
    try { c.print(); } catch (...) { std::cout.flush(); dup2(saved, 1); close(saved); throw; }
    std::cout.flush(); dup2(saved, 1); close(saved);
}
inline Op opReload() {
    Op o; o.name = "reload"; o.cls = "reload";
    o.enabled = [](const World&, const WSnap& s) { return uniformFrames(s.o); };
    o.apply = [](World& w, const WSnap&, CallInfo& ci) {
        ci.kind = K_RELOAD; std::string p = w.path("reload.c3d"); freshDestination(p); w.c->write(p); std::unique_ptr<C3D> n(new C3D(p)); w.c = std::move(n);
    };
    return o;
}
inline Op opSave() {
    Op o; o.name = "save"; o.cls = "save";
    o.enabled = [](const World&, const WSnap&) { return true; };
    o.apply = [](World& w, const WSnap&, CallInfo& ci) { ci.kind = K_SAVE; freshDestination(w.path("save.c3d")); w.c->write(w.path("save.c3d")); };
    return o;
}
inline Op opPrint() {
    Op o; o.name = "print"; o.cls = "print";
    o.enabled = [](const World&, const WSnap&) { return true; };
    o.apply = [](World& w, const WSnap&, CallInfo& ci) { ci.kind = K_PRINT; silencedPrint(*w.c); };
    return o;
}

// ---- caller-side registers (C08) -----------------------------------------------------------------
inline Op opRegBuild(int r, int vs) {
    Op o; o.name = "R" + std::to_string(r) + "=build(v" + std::to_string(vs) + ")"; o.cls = "reg.build";
    o.enabled = [](const World&, const WSnap& s) { Shape sh = declaredShape(s.o); return !(sh.pts.empty() && sh.nsub == 0); };
    o.apply = [r, vs](World& w, const WSnap& s, CallInfo& ci) { ci.kind = K_REG_BUILD; ci.reg = r; w.heldPts[r] = nullptr; w.R[r] = buildFrame(declaredShape(s.o), vs); w.Rset[r] = true; ci.given = intendedFrame(declaredShape(s.o), vs); ci.dev = "intent"; };
    return o;
}
inline Op opRegCopy(int r, int from) {   // R1 = R0 (C++ copy of a Frame: what a user does when reusing a frame object)
    Op o; o.name = "R" + std::to_string(r) + "=R" + std::to_string(from); o.cls = "reg.copy";
    o.enabled = [from](const World& w, const WSnap&) { return w.Rset[from]; };
    o.apply = [r, from](World& w, const WSnap&, CallInfo& ci) { ci.kind = K_REG_BUILD; ci.reg = r; w.heldPts[r] = nullptr; w.R[r] = w.R[from]; w.Rset[r] = true; };
    return o;
}
inline Op opRegSubmit(int r, const std::string& tgt, const Limits& L) {
    Op o; o.name = "frame(R" + std::to_string(r) + "," + tgt + ")"; o.cls = "frame";
    o.enabled = [r, tgt, L](const World& w, const WSnap& s) {
        if (!w.Rset[r]) return false; bool app; size_t idx; if (!targetIdx(tgt, s.o.frames.size(), app, idx)) return false;
        return framesAfter(app, idx, s.o.frames.size()) <= L.maxFrames;
    };
    o.apply = [r, tgt](World& w, const WSnap& s, CallInfo& ci) {
        ci.kind = K_FRAME; ci.reg = r; ci.dev = "reg"; targetIdx(tgt, s.o.frames.size(), ci.append, ci.idx); ci.given = snapFrame(w.R[r]);
        if (ci.append) w.c->frame(w.R[r]); else w.c->frame(w.R[r], ci.idx);
    };
    return o;
}
// the caller hands over a TEMPORARY made from its frame (frame(Frame(R)), a helper returning its working frame by value): the copy shares R's points and analogs
inline Op opRegSubmitTemp(int r, const std::string& tgt, const Limits& L) {
    Op o = opRegSubmit(r, tgt, L); o.name = "frame(Frame(R" + std::to_string(r) + ")," + tgt + ")";
    o.apply = [r, tgt](World& w, const WSnap& s, CallInfo& ci) {
        ci.kind = K_FRAME; ci.reg = r; ci.dev = "reg-temporary"; targetIdx(tgt, s.o.frames.size(), ci.append, ci.idx); ci.given = snapFrame(w.R[r]);
        if (ci.append) w.c->frame(Frame(w.R[r])); else w.c->frame(Frame(w.R[r]), ci.idx);
    };
    return o;
}
inline Op opRegMut(int r, const std::string& what) {   // what: px (x of point 0), ch (channel 0 of sub-frame 0)
    Op o; o.name = "R" + std::to_string(r) + ".mut(" + what + ")"; o.cls = "reg.mut";
    o.enabled = [r, what](const World& w, const WSnap& s) {
        if (!w.Rset[r]) return false;
        if (what == "rename") return !s.reg[r].pts.empty() && s.reg[r].pts[0].name != "Zr";
        if (what == "rename_held") return s.reg[r].pts.size() >= 2 && s.reg[r].pts[0].name != "Zh";
        if (what == "rename_set") return !s.reg[r].pts.empty() && s.reg[r].pts[0].name != "Zs";
        if (what == "rename_after_lookup") return !s.reg[r].pts.empty() && s.reg[r].pts[0].name != "Zl";
        if (what == "px") return !s.reg[r].pts.empty() && s.reg[r].pts[0].v[0] != fbits(-555.5f);
        return !s.reg[r].subs.empty() && !s.reg[r].subs[0].empty() && s.reg[r].subs[0][0].v != fbits(-666.5f);
    };
    o.apply = [r, what](World& w, const WSnap&, CallInfo& ci) {
        ci.kind = K_REG_MUT; ci.reg = r;
        if (what == "rename") { w.R[r].points_nonConst().point_nonConst(0).name("Zr"); return; }
        if (what == "rename_after_lookup") { Points& P = w.R[r].points_nonConst(); Point& kept = P.point_nonConst(0); try { (void)P.pointIdx(kept.name()); (void)P.pointIdx("nope"); } catch (const std::exception&) { } kept.name("Zl"); return; }   // reference taken, THEN searches by name (one successful, one failed), THEN the rename through the reference
        if (what == "rename_set") { Points& P = w.R[r].points_nonConst(); Point q = P.point(0); q.name("Zs"); P.point(q, 0); return; }   // renamed by putting a renamed copy back through the indexed setter
        if (what == "rename_held") {   // a reference to point 0 is taken, THEN point 1 is put back through the indexed setter, THEN point 0 is renamed through the reference kept from before
            Points& P = w.R[r].points_nonConst(); Point& kept = P.point_nonConst(0); Point again = P.point(1); P.point(again, 1); kept.name("Zh"); return; }
        if (what == "px") w.R[r].points_nonConst().point_nonConst(0).x(-555.5f);
        else w.R[r].analogs_nonConst().subframe_nonConst(0).channel_nonConst(0).data(-666.5f);
    };
    return o;
}
// the caller keeps the reference returned by points_nonConst() of ITS OWN frame, and later writes through it
inline Op opRegHold(int r) {
    Op o; o.name = "R" + std::to_string(r) + ".holdPointsRef"; o.cls = "reg.hold";
    o.enabled = [r](const World& w, const WSnap& s) { return w.Rset[r] && !w.heldPts[r] && !s.reg[r].pts.empty(); };
    o.apply = [r](World& w, const WSnap&, CallInfo& ci) { ci.kind = K_REG_MUT; ci.reg = r; w.heldPts[r] = &w.R[r].points_nonConst(); };
    return o;
}
inline Op opRegMutHeld(int r) {
    Op o; o.name = "R" + std::to_string(r) + ".mutThroughHeldRef"; o.cls = "reg.mut(held)";
    o.enabled = [r](const World& w, const WSnap& s) { return w.Rset[r] && w.heldPts[r] && !s.reg[r].pts.empty() && s.reg[r].pts[0].v[1] != fbits(-444.5f); };
    o.apply = [r](World& w, const WSnap&, CallInfo& ci) { ci.kind = K_REG_MUT; ci.reg = r; w.heldPts[r]->point_nonConst(0).y(-444.5f); };
    return o;
}
inline Op opRegExt(int r, const Limits& L) {   // caller appends a point to its own frame object
    Op o; o.name = "R" + std::to_string(r) + ".addPoint(Z)"; o.cls = "reg.ext";
    o.enabled = [r, L](const World& w, const WSnap& s) { if (!w.Rset[r]) return false; for (auto& p : s.reg[r].pts) if (p.name == "Z") return false; return s.reg[r].pts.size() <= L.maxPoints; };
    o.apply = [r](World& w, const WSnap&, CallInfo& ci) { ci.kind = K_REG_EXT; ci.reg = r; Point p; p.name("Z"); p.x(9); p.y(8); p.z(7); w.R[r].points_nonConst().point(p); };
    return o;
}
inline Op opEditStored(size_t fi, const std::string& what) {   // edit a stored frame in place through the public non-const accessors
    Op o; o.name = "stored[" + std::to_string(fi) + "].mut(" + what + ")"; o.cls = "stored.mut";
    o.enabled = [fi, what](const World&, const WSnap& s) {
        if (fi >= s.o.frames.size()) return false; const FrSnap& f = s.o.frames[fi];
        if (what == "px") return !f.pts.empty() && f.pts[0].v[0] != fbits(-777.5f);
        return !f.subs.empty() && !f.subs[0].empty() && f.subs[0][0].v != fbits(-888.5f);
    };
    o.apply = [fi, what](World& w, const WSnap&, CallInfo& ci) {
        ci.kind = K_EDIT_STORED; ci.editFrame = fi;
        if (what == "px") w.c->data().frame(fi).points_nonConst().point_nonConst(0).x(-777.5f);
        else w.c->data().frame(fi).analogs_nonConst().subframe_nonConst(0).channel_nonConst(0).data(-888.5f);
    };
    return o;
}
// a points-only stored frame gets a sub-frame through the public non-const accessors; only THAT frame may change
inline Op opStoredAddSubframe(size_t fi) {
    Op o; o.name = "stored[" + std::to_string(fi) + "].addSubframe"; o.cls = "stored.grow";
    o.enabled = [fi](const World&, const WSnap& s) { return fi < s.o.frames.size() && s.o.frames[fi].subs.empty() && !s.o.frames[fi].pts.empty(); };
    o.apply = [fi](World& w, const WSnap&, CallInfo& ci) { ci.kind = K_EDIT_STORED; ci.editFrame = fi; SubFrame sf; Channel ch; ch.name("grown"); ch.data(12.5f); sf.channel(ch); w.c->data().frame(fi).analogs_nonConst().subframe(sf); };
    return o;
}
inline Op opRegAddSubframe(int r) {
    Op o; o.name = "R" + std::to_string(r) + ".addSubframe"; o.cls = "reg.grow";
    o.enabled = [r](const World& w, const WSnap& s) { return w.Rset[r] && s.reg[r].subs.empty() && !s.reg[r].pts.empty(); };
    o.apply = [r](World& w, const WSnap&, CallInfo& ci) { ci.kind = K_REG_EXT; ci.reg = r; SubFrame sf; Channel ch; ch.name("grown"); ch.data(-3.25f); sf.channel(ch); w.R[r].analogs_nonConst().subframe(sf); };
    return o;
}
// a COPY of a parameter stored in the object (e.g. a BYTE parameter that only a file can bring) is renamed and handed back
inline Op opParamCopyOfStored(const std::string& srcGroup, const std::string& srcParam, const std::string& grp, const std::string& pname) {
    Op o; o.name = "param(" + grp + ":" + pname + " <- copy of " + srcGroup + ":" + srcParam + ")"; o.cls = "param(copy)";
    o.enabled = [srcGroup, srcParam](const World&, const WSnap& s) { const GSnap* g = s.o.group(srcGroup); return g && g->find(srcParam); };
    o.apply = [srcGroup, srcParam, grp, pname](World& w, const WSnap&, CallInfo& ci) {
        ci.kind = K_PARAM; ci.group = grp; Param p = w.c->parameters().group(srcGroup).parameter(srcParam); p.name(pname); ci.givenParam = snapParam(p); w.c->parameter(grp, p);
    };
    return o;
}
// read-modify-write of one slot: the caller takes a (shallow) copy of stored frame fi, gives it NEW points or NEW analogs (or leaves it as it is), and stores it back at the same index.
// The copy ends up in register r: from then on it is the caller's own frame and must be independent of the stored one.
inline Op opTakeEditPutBack(int r, size_t fi, const std::string& what, int vs) {
    Op o; o.name = "R" + std::to_string(r) + "=copy(stored[" + std::to_string(fi) + "])," + what + ",frame(R" + std::to_string(r) + "," + std::to_string(fi) + ")"; o.cls = "frame(copy-of-stored)";
    o.enabled = [fi, what](const World&, const WSnap& s) { if (fi >= s.o.frames.size() || s.o.frames[fi].empty()) return false; if (what == "newpts" && s.o.frames[fi].pts.empty()) return false; if (what == "newan" && s.o.frames[fi].subs.empty()) return false; return true; };
    o.apply = [r, fi, what, vs](World& w, const WSnap& s, CallInfo& ci) {
        ci.kind = K_FRAME; ci.reg = r; ci.dev = "copy-of-stored/" + what; ci.append = false; ci.idx = fi; Points* heldBefore = w.heldPts[r]; w.heldPts[r] = nullptr;
        Frame g(w.c->data().frame(fi)); Shape sh; for (auto& p : s.o.frames[fi].pts) sh.pts.push_back(p.name); if (!s.o.frames[fi].subs.empty()) { for (auto& c : s.o.frames[fi].subs[0]) sh.chans.push_back(c.name); sh.nsub = s.o.frames[fi].subs.size(); }
        Frame fresh = buildFrame(sh, vs); FrSnap want = s.o.frames[fi]; FrSnap in = intendedFrame(sh, vs);
        if (what == "newpts") { g.add(fresh.points()); want.pts = in.pts; } else if (what == "newan") { g.add(fresh.analogs()); want.subs = in.subs; }
        ci.given = want; Frame before = w.R[r]; bool beforeSet = w.Rset[r]; w.R[r] = g; w.Rset[r] = true;
        try { w.c->frame(w.R[r], fi); }
        catch (...) { w.R[r] = before; w.Rset[r] = beforeSet; w.heldPts[r] = heldBefore; throw; }   // not handed over: the copy still shares with the stored frame (that is what a Frame copy is); the caller drops it
    };
    return o;
}
// the caller hands a frame that lives INSIDE the object (a reference to a stored frame) back to the object
inline Op opSubmitStored(size_t fi, const std::string& tgt, const Limits& L) {
    Op o; o.name = "frame(stored[" + std::to_string(fi) + "]," + tgt + ")"; o.cls = "frame(self)";
    o.enabled = [fi, tgt, L](const World&, const WSnap& s) {
        if (fi >= s.o.frames.size() || s.o.frames[fi].empty()) return false; bool app; size_t idx; if (!targetIdx(tgt, s.o.frames.size(), app, idx)) return false;
        return framesAfter(app, idx, s.o.frames.size()) <= L.maxFrames;
    };
    o.apply = [fi, tgt](World& w, const WSnap& s, CallInfo& ci) {
        ci.kind = K_FRAME; ci.dev = "self"; targetIdx(tgt, s.o.frames.size(), ci.append, ci.idx); ci.given = s.o.frames[fi];
        const Frame& ref = w.c->data().frame(fi);
        if (ci.append) w.c->frame(ref); else w.c->frame(ref, ci.idx);
    };
    return o;
}
// ---- bulk ops: one op = the same public call made many times in a row (counts beyond the small shape guards: 17, 33, 65 cross the growth steps of containers)
inline Op opBulkPoints(int n) {
    Op o; o.name = "point(name)x" + std::to_string(n); o.cls = "point(name)";
    o.enabled = [](const World&, const WSnap& s) { return s.o.frames.empty() && pStrs(s.o, "POINT", "LABELS").empty() && !s.loadedRoot; };
    o.apply = [n](World& w, const WSnap&, CallInfo& ci) { ci.kind = K_BULK; for (int i = 0; i < n; ++i) w.c->point("P" + std::to_string(i)); };
    return o;
}
inline Op opBulkChans(int n) {
    Op o; o.name = "analog(name)x" + std::to_string(n); o.cls = "analog(name)";
    o.enabled = [](const World&, const WSnap& s) { return s.o.frames.empty() && pStrs(s.o, "ANALOG", "LABELS").empty() && !s.loadedRoot; };
    o.apply = [n](World& w, const WSnap&, CallInfo& ci) { ci.kind = K_BULK; for (int i = 0; i < n; ++i) w.c->analog("c" + std::to_string(i)); };
    return o;
}
inline Op opBulkFrames(int n) {   // n conforming frames appended one after the other (three value sets in turn), then frame 1 replaced
    Op o; o.name = "frame(ok,app)x" + std::to_string(n) + "+replace"; o.cls = "frame";
    o.enabled = [](const World&, const WSnap& s) { Shape sh = declaredShape(s.o); if (!s.o.frames.empty() || (sh.pts.empty() && sh.nsub == 0)) return false; if (!sh.pts.empty() && pFloat(s.o, "POINT", "RATE") == 0.0f) return false; if (sh.nsub && pFloat(s.o, "ANALOG", "RATE") == 0.0f) return false; return true; };
    o.apply = [n](World& w, const WSnap& s, CallInfo& ci) { ci.kind = K_BULK; Shape sh = declaredShape(s.o); for (int i = 0; i < n; ++i) w.c->frame(buildFrame(sh, i % 3)); w.c->frame(buildFrame(sh, 2), 1); };
    return o;
}
// a whole recording in one op: P points and C channels declared by name, rates 100 / 200 Hz, F conforming frames appended (value sets in turn), frame 1 replaced
inline Op opBigObject(int P, int C, int F) {
    Op o; o.name = "big(" + std::to_string(P) + "pts," + std::to_string(C) + "ch," + std::to_string(F) + "fr)"; o.cls = "bulk";
    o.enabled = [](const World&, const WSnap& s) { return nothingDeclared(s.o) && !s.loadedRoot && s.o.groups.size() <= 3; };
    o.apply = [P, C, F](World& w, const WSnap&, CallInfo& ci) {
        ci.kind = K_BULK; Shape sh;
        for (int i = 0; i < P; ++i) { sh.pts.push_back("P" + std::to_string(i)); w.c->point(sh.pts.back()); }
        for (int i = 0; i < C; ++i) { sh.chans.push_back("c" + std::to_string(i)); w.c->analog(sh.chans.back()); }
        if (P) w.c->parameter("POINT", mkRate(100.f)); if (C) { w.c->parameter("ANALOG", mkRate(P ? 200.f : 100.f)); sh.nsub = P ? 2 : 1; }
        for (int i = 0; i < F; ++i) w.c->frame(buildFrame(sh, i % 3));
        if (F > 1) w.c->frame(buildFrame(sh, 2), 1);
    };
    return o;
}
// root op: replace the fresh object by one loaded from a file (only enabled in the initial state)
inline Op opLoadRoot(const std::string& id, const std::string& path) {
    Op o; o.name = "load(" + id + ")"; o.cls = "load";
    o.enabled = [](const World&, const WSnap&) { return false; };   // enabled explicitly by the explorer at depth 0
    o.apply = [path](World& w, const WSnap&, CallInfo& ci) { ci.kind = K_LOAD_ROOT; std::unique_ptr<C3D> n(new C3D(path)); w.c = std::move(n); w.loadedRoot = true; };
    return o;
}

} // namespace vf
