// drv_fault.cpp — engine C (C15): every save is executed over a fake device with ONE injected fault (thorough: pairs);
// oracle: write() returned normally  =>  the device holds exactly the fault-free bytes; otherwise an I/O failure must propagate.
#include "probes.h"
#include "io_shim.h"
#include <errno.h>
#include <chrono>

using namespace vf;

static void buildObject(C3D& c, const std::string& kind) {
    if (kind == "blank") return;
    if (kind == "huge") {   // > 4 MiB of data, 96 points per frame (more than 1 KiB per frame): sizes at which an implementation may switch to another writing strategy
        Shape sh; for (int i = 0; i < 96; ++i) { sh.pts.push_back("P" + std::to_string(i)); c.point(sh.pts.back()); } c.parameter("POINT", mkRate(100.f));
        Frame f0 = buildFrame(sh, 0), f1 = buildFrame(sh, 1); for (int f = 0; f < 3000; ++f) c.frame((f % 2) ? f1 : f0); return; }
    int np = kind == "small" ? 1 : 3, nc = kind == "small" ? 0 : 2, spf = kind == "small" ? 0 : (kind == "big" ? 4 : 2), nf = kind == "small" ? 2 : (kind == "big" ? 150 : 3);
    const char* pn[] = {"A", "B", "C"}; const char* cn[] = {"a", "b"};
    for (int i = 0; i < np; ++i) c.point(pn[i]);
    for (int i = 0; i < nc; ++i) c.analog(cn[i]);
    c.parameter("POINT", mkRate(100.f)); if (nc) c.parameter("ANALOG", mkRate(100.f * (float)spf));
    if (kind != "small") { Param p("LONGTEXT", std::string(200, 'd')); std::vector<std::string> v; for (int i = 0; i < 12; ++i) v.push_back(std::string(40, (char)('a' + i))); p.set(v); c.parameter("EXTRA", p); Param q("MAT"); std::vector<float> fv(60, 1.5f); q.set(fv, {6, 10}); c.parameter("EXTRA", q); }
    Shape sh; for (int i = 0; i < np; ++i) sh.pts.push_back(pn[i]); for (int i = 0; i < nc; ++i) sh.chans.push_back(cn[i]); sh.nsub = (size_t)spf;
    for (int f = 0; f < nf; ++f) c.frame(buildFrame(sh, f % 3));
}
struct Plan { std::string text; ShimPlan p; };
// The calling context of the save is part of the plan: directly; inside a catch handler (an exception is being handled);
// from a destructor that runs while an unrelated exception unwinds the stack (std::uncaught_exception() is true).
static Outcome saveIn(const std::string& ctx, C3D& c, const std::string& path, std::string* what) {
    if (ctx == "direct") return guarded([&] { c.write(path); }, what);
    if (ctx == "in-catch-handler") { Outcome oc = OK; try { throw std::runtime_error("other"); } catch (const std::runtime_error&) { oc = guarded([&] { c.write(path); }, what); } return oc; }
    Outcome oc = OK;
    struct Guard { C3D& c; const std::string& p; Outcome& oc; std::string* w; ~Guard() { oc = guarded([&] { c.write(p); }, w); } };
    try { Guard g{c, path, oc, what}; throw std::logic_error("unrelated"); } catch (const std::logic_error&) { }
    return oc;
}

int main(int argc, char** argv) {
    double deadlineS = 1e9; size_t plansSkipped = 0; auto nowS = [] { return std::chrono::duration<double>(std::chrono::steady_clock::now().time_since_epoch()).count(); }; double t0 = nowS();
    std::string tier = "quick", scratch, out, one; for (int i = 1; i < argc; ++i) { std::string a = argv[i]; auto nxt = [&]() { return std::string(argv[++i]); }; if (a == "--tier") tier = nxt(); else if (a == "--scratch") scratch = nxt(); else if (a == "--out") out = nxt(); else if (a == "--plan") one = nxt(); else if (a == "--deadline") deadlineS = atof(nxt().c_str()); }
    if (scratch.empty()) scratch = "/dev/shm/ezc3d-verif-fault." + std::to_string(getpid()); mkdir(scratch.c_str(), 0755);
    bool thorough = tier == "thorough";
    std::vector<std::string> objects = thorough ? std::vector<std::string>{"blank", "small", "medium", "big"} : std::vector<std::string>{"blank", "small", "medium", "big"};
    std::string dev = scratch + "/DEV_"; ShimPlan base; memset(&base, 0, sizeof base); base.active = 1; snprintf(base.prefix, sizeof base.prefix, "%s", dev.c_str()); base.capacity = -1;
    struct V { std::string sig, obj, plan, detail; }; std::vector<V> viols; std::map<std::string, size_t> outcomes; size_t evals = 0, injectedRuns = 0; std::vector<std::string> samples;
    FILE* f = nullptr; std::string perObject;
    // "over-source": the object is LOADED from the device path, edited, and saved over the file it came from
    objects.push_back("over-source"); objects.push_back("huge");
    for (auto& ok : objects) {
        std::unique_ptr<C3D> holder; std::string path = dev + ok + ".c3d"; std::string original;
        if (ok == "over-source") {
            C3D seed; buildObject(seed, "medium"); vf_plan = base; vf_plan.active = 0; seed.write(path); readAll(path, original);
            holder.reset(new C3D(path)); Param q("EDITED"); q.set(std::vector<int>() = {1, 2, 3}); holder->parameter("AFTERLOAD", q);
        } else { holder.reset(new C3D()); buildObject(*holder, ok); }
        C3D& c = *holder;
        vf_plan = base; vf_shim_reset(); std::string what; Outcome oc = guarded([&] { c.write(path); }, &what);
        std::string good; readAll(path, good); long nWrites = vf_stats.writeCalls; long size = (long)good.size();
        if (oc != OK || size < 512) { viols.push_back({"harness/fault_free_save_failed", ok, "none", what}); continue; }
        perObject += (perObject.empty() ? "" : ", ") + ("\"" + ok + "\": {\"bytes\": " + std::to_string(size) + ", \"write_calls\": " + std::to_string(nWrites) + ", \"seeks\": " + std::to_string(vf_stats.seeks) + "}");
        std::vector<Plan> plans;
        for (int e : {ENOENT, EACCES, EROFS}) { Plan p; p.p = base; p.p.openErrno = e; p.text = "open-fails/errno=" + std::to_string(e); plans.push_back(p); }
        long capStep = (ok == "big" && !thorough) ? 7 : 1; if (ok == "huge") capStep = thorough ? 16381 : 65521;   // (prime-ish steps: every buffer-flush position class is met)
        for (long cap = 0; cap < size; cap += capStep) { Plan p; p.p = base; p.p.capacity = cap; p.text = "capacity=" + std::to_string(cap); plans.push_back(p); }
        long kStep = ok == "huge" ? (thorough ? 2 : 5) : 1;   // (the huge object: every 5th of its ~560 write calls in the quick tier, every one in the thorough tier)
        for (long k = 1; k <= nWrites; k += kStep) for (int e : {EIO, EFBIG}) { if (ok == "huge" && e == EFBIG && !thorough) continue; Plan p; p.p = base; p.p.failWriteCall = k; p.p.failErrno = e; p.text = "write-call-" + std::to_string(k) + "-fails/errno=" + std::to_string(e); plans.push_back(p); }
        { Plan p; p.p = base; p.p.closeFailErrno = EIO; p.text = "close-fails"; plans.push_back(p); }
        { Plan p; p.p = base; p.p.failSeekCall = -1; p.text = "unseekable-destination"; plans.push_back(p); }   // accepts bytes, cannot be repositioned (pipe, tty): the back-patching seeks fail
        for (long k = 1; k <= 8; ++k) { Plan p; p.p = base; p.p.failSeekCall = k; p.text = "seek-" + std::to_string(k) + "-fails"; plans.push_back(p); }
        { Plan p; p.p = base; p.p.shortMode = -1; p.text = "all-writes-short"; plans.push_back(p); }
        for (long k = 1; k <= nWrites; k += (ok == "huge" ? (thorough ? 7 : 41) : 1)) { Plan p; p.p = base; p.p.shortMode = (int)k; p.text = "short-write-" + std::to_string(k); plans.push_back(p); }
        if (thorough) {   // pairs: short writes everywhere + one hard fault
            long st = ok == "big" ? 3 : 1;
            for (long cap = 0; cap < size; cap += st) { Plan p; p.p = base; p.p.capacity = cap; p.p.shortMode = -1; p.text = "all-writes-short+capacity=" + std::to_string(cap); plans.push_back(p); }
            for (long k = 1; k <= 2 * nWrites + 4; ++k) { Plan p; p.p = base; p.p.failWriteCall = k; p.p.failErrno = EIO; p.p.shortMode = -1; p.text = "all-writes-short+write-call-" + std::to_string(k) + "-fails"; plans.push_back(p); }
            for (long cap = 0; cap < size; cap += st * 5) { Plan p; p.p = base; p.p.capacity = cap; p.p.closeFailErrno = EIO; p.text = "close-fails+capacity=" + std::to_string(cap); plans.push_back(p); }
        }
        {   // every plan again in the two other calling contexts
            size_t n = plans.size();
            for (auto ctx : {"in-catch-handler", "during-unwinding"}) for (size_t i = 0; i < n; ++i) { if ((ok == "big" && i % 5) || (ok == "huge" && i % 11)) continue; Plan p = plans[i]; p.text += std::string("@") + ctx; plans.push_back(p); }
        }
        for (auto& pl : plans) {
            if (!one.empty() && one != ok + ":" + pl.text) continue;
            if (nowS() - t0 > deadlineS) { plansSkipped++; continue; }   // out of time: the remaining plans are counted, not run
            std::string ctx = pl.text.find('@') == std::string::npos ? "direct" : pl.text.substr(pl.text.find('@') + 1);
            unlink(path.c_str()); if (ok == "over-source") { vf_plan.active = 0; FILE* fr = fopen(path.c_str(), "wb"); fwrite(original.data(), 1, original.size(), fr); fclose(fr); }
            vf_plan = pl.p; vf_shim_reset(); std::string w2; Outcome o2 = saveIn(ctx, c, path, &w2); long inj = vf_stats.injected;
            vf_plan.active = 0; std::string got; readAll(path, got); evals++; if (inj) injectedRuns++;
            std::string bare = pl.text.substr(0, pl.text.find('@')); std::string cls = bare.substr(0, bare.find_first_of("=0123456789")); while (!cls.empty() && (cls.back() == '-' || cls.back() == '/')) cls.pop_back();
            if (pl.text.compare(0, 10, "open-fails") == 0) cls = "open-fails"; if (pl.text.find("+") != std::string::npos) cls = "pair:" + cls; if (ctx != "direct") cls += "@" + ctx;
            outcomes[std::string(outcomeName(o2)) + (got == good ? "/complete" : "/incomplete")]++;
            if (samples.size() < 8 && evals % 97 == 1) samples.push_back(ok + ":" + pl.text + " -> " + outcomeName(o2));
            if (!one.empty()) printf("%s:%s -> %s (%s) injected=%ld device holds %zu of %ld bytes, identical=%d\n", ok.c_str(), pl.text.c_str(), outcomeName(o2), w2.c_str(), inj, got.size(), size, (int)(got == good));
            if (o2 == OK && got != good) viols.push_back({"returns-normally/" + cls, ok, pl.text, "save returned normally but the device holds " + std::to_string(got.size()) + " of " + std::to_string(size) + " bytes" + (got.size() == good.size() ? " (content differs)" : "")});
            else if (o2 != OK && o2 != IOS_FAILURE) viols.push_back({std::string("wrong-exception/") + outcomeName(o2) + "/" + cls, ok, pl.text, w2});
            else if (o2 == IOS_FAILURE && inj == 0) viols.push_back({"spurious-failure/" + cls, ok, pl.text, "I/O failure reported although no fault was injected: " + w2});
            else if (o2 == IOS_FAILURE && got == good && pl.p.closeFailErrno == 0 && pl.p.failWriteCall == 0 && pl.p.capacity < 0 && pl.p.openErrno == 0 && pl.p.failSeekCall == 0) viols.push_back({"failure-although-complete/" + cls, ok, pl.text, "I/O failure reported although every byte reached the device (recoverable short writes only)"});
        }
        unlink(path.c_str());
    }
    vf_plan.active = 0;
    auto jstr = [](const std::string& s) { std::string o = "\""; for (unsigned char ch : s) { if (ch == '"' || ch == '\\') { o += '\\'; o += (char)ch; } else if (ch < 32 || ch > 126) o += '?'; else o += (char)ch; } return o + "\""; };
    f = out.empty() ? stdout : fopen(out.c_str(), "w");
    fprintf(f, "{\n \"plans_not_run_deadline\": %zu,", plansSkipped);
    fprintf(f, " \"tier\": %s, \"evaluations\": %zu, \"runs_with_injected_fault\": %zu, \"objects\": {%s},\n \"outcomes\": {", jstr(tier).c_str(), evals, injectedRuns, perObject.c_str());
    { bool first = true; for (auto& kv : outcomes) { fprintf(f, "%s%s: %zu", first ? "" : ", ", jstr(kv.first).c_str(), kv.second); first = false; } }
    fprintf(f, "},\n \"samples\": ["); for (size_t i = 0; i < samples.size(); ++i) fprintf(f, "%s%s", i ? ", " : "", jstr(samples[i]).c_str());
    std::map<std::string, std::pair<V, size_t>> bySig; for (auto& v : viols) { auto it = bySig.find(v.sig); if (it == bySig.end()) bySig[v.sig] = {v, 1}; else it->second.second++; }
    fprintf(f, "],\n \"violations\": [\n"); { bool first = true; for (auto& kv : bySig) { fprintf(f, "%s  {\"sig\": %s, \"object\": %s, \"plan\": %s, \"detail\": %s, \"count\": %zu}", first ? "" : ",\n", jstr(kv.first).c_str(), jstr(kv.second.first.obj).c_str(), jstr(kv.second.first.plan).c_str(), jstr(kv.second.first.detail).c_str(), kv.second.second); first = false; } }
    fprintf(f, "\n ]\n}\n"); if (f != stdout) fclose(f);
    return 0;
}
