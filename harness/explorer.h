// explorer.h — explicit-state, level-synchronous BFS over operation histories executed on the REAL code.
// State = history replayed on a fresh World; dedup on the 128-bit hash of the canonical dump.
// Each level is expanded by forked workers (crash / hang containment through a shared breadcrumb).
#pragma once
#include "probes.h"
#include <sys/mman.h>
#include <sys/wait.h>
#include <sys/time.h>
#include <sys/resource.h>
#include <signal.h>
#include <unordered_set>
#include <unordered_map>
#include <chrono>
#include <thread>

namespace vf {

struct OracleSet {
    bool c01 = false, c03 = false, c05 = false, c06 = false, c07 = false, c08 = false, c09 = false, c10 = false, c11 = false, c13 = false, c14 = false;
    bool transcript = false;   // C19: emit one line per state (key, file digest) for cross-build comparison
    bool any(const char* id) const;
};
inline OracleSet parseOracles(const std::string& s) {
    OracleSet o; std::stringstream ss(s); std::string t;
    while (std::getline(ss, t, ',')) {
        if (t == "C01") o.c01 = true; else if (t == "C03") o.c03 = true; else if (t == "C05") o.c05 = true; else if (t == "C06") o.c06 = true;
        else if (t == "C07") o.c07 = true; else if (t == "C08") o.c08 = true; else if (t == "C09") o.c09 = true; else if (t == "C10") o.c10 = true;
        else if (t == "C11") o.c11 = true; else if (t == "C13") o.c13 = true; else if (t == "C14") o.c14 = true; else if (t == "T") o.transcript = true;
        else if (!t.empty()) { fprintf(stderr, "unknown oracle %s\n", t.c_str()); exit(2); }
    }
    return o;
}

// hook implemented by drv_api.cpp for the C03 probe (needs the reference decoder)
void probe_C03(World& w, const WSnap& s, Sink& out, ProbeStats& st);
// sanitizer report buffer (filled by the ASan callback in the asan flavour; empty otherwise)
std::string takeSanitizerReport();

struct Crumb { volatile uint32_t parent; volatile int32_t op; volatile uint64_t progress; volatile uint32_t done; };
static const int QUARANTINE_AFTER = 3;   // an op that crashed this often is disabled for the rest of the run (reported, run marked incomplete)

struct Stats {
    uint64_t executions = 0, transitions = 0, refused = 0, probes01 = 0, skipped01 = 0, probes03 = 0, skipped03 = 0, probes14 = 0, lookups = 0;
    uint64_t c07accept = 0, c07refuse = 0, c07dontcare = 0, harnessErrors = 0, sanReports = 0;
    uint64_t outcomes[N_OUTCOMES] = {0};
    void add(const Stats& o) {
        executions += o.executions; transitions += o.transitions; refused += o.refused; probes01 += o.probes01; skipped01 += o.skipped01; probes03 += o.probes03; skipped03 += o.skipped03;
        probes14 += o.probes14; lookups += o.lookups; c07accept += o.c07accept; c07refuse += o.c07refuse; c07dontcare += o.c07dontcare; harnessErrors += o.harnessErrors; sanReports += o.sanReports;
        for (int i = 0; i < N_OUTCOMES; ++i) outcomes[i] += o.outcomes[i];
    }
};

struct Explorer {
    std::vector<Op> ops; std::vector<int> rootOps;   // rootOps: op ids enabled only in the initial state
    OracleSet orc; std::string scratch; int workers = 16; int maxDepth = 4; size_t maxStates = 3000000; double deadline = 1e18; double hangSecs = 30;
    std::string alphabetName; std::string transcriptPath;

    using Hist = std::vector<uint16_t>;
    static double now() { return std::chrono::duration<double>(std::chrono::steady_clock::now().time_since_epoch()).count(); }

    std::string histText(const Hist& h) const { std::string s; for (size_t i = 0; i < h.size(); ++i) { if (i) s += " ; "; s += ops[h[i]].name; } return s; }

    // replay a history on a fresh world. Returns false on harness error (op not enabled / crash is not caught here).
    bool replay(World& w, const Hist& h, WSnap* last = nullptr, bool verbose = false) const {
        for (size_t i = 0; i < h.size(); ++i) {
            WSnap s = snapWorld(w);
            const Op& op = ops[h[i]];
            bool en = op.enabled(w, s) || (i == 0 && std::find(rootOps.begin(), rootOps.end(), (int)h[i]) != rootOps.end());
            if (!en) { if (verbose) printf("  !! op %s not enabled during replay\n", op.name.c_str()); return false; }
            CallInfo ci; std::string what; Outcome oc = guarded([&] { op.apply(w, s, ci); }, &what);
            if (verbose) printf("  step %zu: %s -> %s%s%s\n", i + 1, op.name.c_str(), outcomeName(oc), what.empty() ? "" : " : ", what.c_str());
        }
        if (last) *last = snapWorld(w);
        return true;
    }
    bool opEnabled(int id, const World& w, const WSnap& s, size_t depth) const {
        if (std::find(rootOps.begin(), rootOps.end(), id) != rootOps.end()) return depth == 0;
        return ops[id].enabled(w, s);
    }

    mutable long curParent = -1;
    void stateOracles(World& w, const WSnap& s, Sink& sink, Stats& st, FILE* dig) const {
        if (orc.c05) inv_C05(s.o, sink, !s.loadedRoot);
        if (orc.c11) { C11Stats cs; sweep_C11(w, s, sink, cs); st.lookups += cs.lookups; }
        if (orc.c01) { ProbeStats ps; probe_C01(w, s, sink, ps); st.probes01 += ps.probed; st.skipped01 += ps.skipped; }
        if (orc.c03) { ProbeStats ps; probe_C03(w, s, sink, ps); st.probes03 += ps.probed; st.skipped03 += ps.skipped; }
        if (orc.c14 || orc.transcript) {
            Key d; Sink tmp; bool ok = probe_C14(w, s, orc.c14 ? sink : tmp, d);
            if (ok) { st.probes14++; if (dig) fprintf(dig, "%s %s %ld\n", s.key.hex().c_str(), d.hex().c_str(), curParent); }
            else if (dig && orc.transcript) fprintf(dig, "%s save_failed %ld\n", s.key.hex().c_str(), curParent);
        }
        if (orc.c13) {   // exercise print / save / load / destroy on every distinct state; the sanitizer is the oracle
            guarded([&] { silencedPrint(*w.c); });
            if (uniformFrames(s.o)) { std::string p = w.path("c13.c3d"); freshDestination(p); Outcome oc = guarded([&] { w.c->write(p); }); if (oc == OK) guarded([&] { C3D l(p); silencedPrint(l); }); }
        }
    }
    void transitionOracles(const WSnap& pre, const CallInfo& ci, Outcome oc, const WSnap& post, World& w, const Op& op, Sink& sink, Stats& st) const {
        if (orc.c06) tr_C06(pre, ci, oc, post, sink);
        if (orc.c01) tr_C06(pre, ci, oc, post, sink, "C01");
        if (orc.c07) { int vk = -1; tr_C07(pre, ci, oc, post, sink, &vk); if (vk == Verdict::MUST_ACCEPT) st.c07accept++; else if (vk == Verdict::MUST_REFUSE) st.c07refuse++; else if (vk == Verdict::DONT_CARE) st.c07dontcare++; }
        if (orc.c08) tr_C08(pre, ci, oc, post, op.cls, sink);
        if (orc.c09) tr_C09(pre, ci, oc, post, sink);
        if (orc.c10) tr_C10(pre, ci, oc, post, op.cls, sink);
        if (orc.c11) tr_C11(pre, ci, oc, post, w, sink);
    }

    struct SkipKey { uint32_t parent; int32_t op; bool operator<(const SkipKey& o) const { return parent != o.parent ? parent < o.parent : op < o.op; } };

    // ---- worker ---------------------------------------------------------------------------------
    // processes parents i ≡ wi (mod workers) of `frontier`, starting at parent index `from`
    void worker(int wi, int level, const std::vector<Hist>& frontier, const std::vector<Key>& fkeys, bool expand, uint32_t from,
                const std::set<SkipKey>& skip, Crumb* crumb, const volatile uint32_t* crashCount) const {
        std::string base = scratch + "/L" + std::to_string(level) + ".w" + std::to_string(wi);
        FILE* fb = fopen((base + ".bin").c_str(), "ab"); FILE* fv = fopen((base + ".viol").c_str(), "a"); FILE* fd = fopen((base + ".dig").c_str(), "a");
        {   int efd = open((base + ".err").c_str(), O_WRONLY | O_CREAT | O_TRUNC, 0644); dup2(efd, 2); close(efd); }
        std::string wdir = scratch + "/w" + std::to_string(wi); mkdir(wdir.c_str(), 0755);
        Stats st;
        auto flushStats = [&]() {
            FILE* fs = fopen((base + ".stat").c_str(), "ab"); fwrite(&st, sizeof st, 1, fs); fclose(fs); st = Stats();
        };
        for (uint32_t pi = from; pi < frontier.size(); ++pi) {
            if ((int)(pi % (uint32_t)workers) != wi) continue;
            if (now() > deadline) { break; }
            crumb->parent = pi; crumb->op = -1; crumb->progress++; curParent = (long)pi;
            const Hist& h = frontier[pi];
            std::vector<unsigned char> rec; Sink sink; std::vector<std::pair<int, size_t>> sinkOp;   // (op id, sink size after)
            auto emitSink = [&](int opId, size_t fromIdx) {
                for (size_t k = fromIdx; k < sink.size(); ++k) {
                    std::string d = sink[k].detail; for (auto& c : d) if (c == '\t' || c == '\n') c = ' ';
                    fprintf(fv, "%s\t%s\t%u\t%d\t%s\n", sink[k].prop.c_str(), sink[k].sig.c_str(), pi, opId, d.c_str());
                }
            };
            bool skipState = skip.count(SkipKey{pi, -1}) > 0;
            uint8_t status = 0; std::vector<int> enabledOps;
            {
                World w(wdir); WSnap s; st.executions++;
                if (!replay(w, h, &s) || s.key != fkeys[pi]) { status = 1; st.harnessErrors++; fprintf(fv, "HARNESS\treplay_diverged/state\t%u\t-1\tkey %s expected %s\n", pi, s.key.hex().c_str(), fkeys[pi].hex().c_str()); }
                else {
                    if (!skipState) { size_t b = sink.size(); stateOracles(w, s, sink, st, fd); emitSink(-1, b); }
                    if (expand) for (size_t id = 0; id < ops.size(); ++id) if (opEnabled((int)id, w, s, h.size())) enabledOps.push_back((int)id);
                }
            }
            uint16_t nTrans = 0; std::vector<unsigned char> trs;
            struct Done { int id; Outcome oc; Key post; }; std::vector<Done> doneOps;
            auto sanLine = [&](int opId) { std::string rep = takeSanitizerReport(); if (!rep.empty()) { st.sanReports++; for (auto& c : rep) if (c == '\t' || c == '\n') c = '|'; fprintf(fv, "SAN\t-\t%u\t%d\t%s\n", pi, opId, rep.c_str()); } };
            sanLine(-1);
            if (status == 0 && expand) for (int id : enabledOps) {
                if (skip.count(SkipKey{pi, id})) continue;
                if (crashCount[id] >= (uint32_t)QUARANTINE_AFTER) continue;
                crumb->op = id; crumb->progress++;
                {
                    World w(wdir); WSnap pre; st.executions++;
                    if (!replay(w, h, &pre) || pre.key != fkeys[pi]) { status = 1; st.harnessErrors++; fprintf(fv, "HARNESS\treplay_diverged/transition\t%u\t%d\tkey %s expected %s\n", pi, id, pre.key.hex().c_str(), fkeys[pi].hex().c_str()); break; }
                    const ezc3d::Header* heldH = &w.c->header(); const ezc3d::ParametersNS::Parameters* heldP = &w.c->parameters(); const ezc3d::DataNS::Data* heldD = &w.c->data(); const C3D* heldC = w.c.get();
                    CallInfo ci; Outcome oc = guarded([&] { ops[id].apply(w, pre, ci); });
                    if (orc.c13 && heldC == w.c.get()) {   // references obtained from the accessors before the call stay usable after it (the sanitizer judges)
                        volatile size_t sink1 = heldH->nbFrames() + heldP->nbGroups() + heldD->nbFrames(); (void)sink1;
                    }
                    WSnap post = snapWorld(w);
                    st.transitions++; st.outcomes[oc]++; if (oc != OK) st.refused++;
                    size_t b = sink.size(); transitionOracles(pre, ci, oc, post, w, ops[id], sink, st);
                    if (orc.c14 && getenv("VF_NO_TWIN") == nullptr && ci.kind != K_LOAD_ROOT && h.size() < (size_t)atoi(getenv("VF_TWIN_DEPTH") ? getenv("VF_TWIN_DEPTH") : "3")) {   // "saving does not change the object": the same call made AFTER a save (and a print) must give the same object and the same file as the call made without it
                        World w2(wdir); WSnap pre2;
                        if (replay(w2, h, &pre2) && pre2.key == pre.key) {
                            std::string ps = w2.path("twin_before.c3d"); freshDestination(ps); Outcome so = guarded([&] { w2.c->write(ps); }); guarded([&] { silencedPrint(*w2.c); });
                            if (so == OK) {
                                CallInfo ci2; Outcome oc2 = guarded([&] { ops[id].apply(w2, pre2, ci2); }); WSnap post2 = snapWorld(w2);
                                if (oc2 != oc || post2.key != post.key) V(sink, "C14", "earlier_save_changes_later_call/" + ops[id].cls + "/object", std::string("after a save the call ends in ") + outcomeName(oc2) + ", without it in " + outcomeName(oc) + (post2.key != post.key ? "; the resulting objects differ" : ""));
                                else if (uniformFrames(post.o)) {
                                    std::string pa = w.path("twin_a.c3d"), pb = w2.path("twin_b.c3d"); freshDestination(pa); freshDestination(pb);
                                    Outcome oa = guarded([&] { w.c->write(pa); }), ob = guarded([&] { w2.c->write(pb); }); std::string ba, bb; if (oa == OK) readAll(pa, ba); if (ob == OK) readAll(pb, bb);
                                    if (oa != ob || ba != bb) V(sink, "C14", "earlier_save_changes_later_call/" + ops[id].cls + "/file", "the same object, reached with and without an intermediate save, is written as different files");
                                }
                            }
                        }
                    }
                    emitSink(id, b);
                    doneOps.push_back({id, oc, post.key});
                    uint16_t oid = (uint16_t)id; uint8_t o8 = (uint8_t)oc;
                    trs.insert(trs.end(), (unsigned char*)&oid, (unsigned char*)&oid + 2); trs.push_back(o8);
                    trs.insert(trs.end(), (unsigned char*)&post.key, (unsigned char*)&post.key + sizeof(Key)); nTrans++;
                }
                sanLine(id);   // includes the destructors of this transition's world
            }
            // "the object is the same as before the refused call" also means: whatever is called NEXT behaves as if the refused call had never been made
            // (a refusal leaves no hidden trace). For parents up to depth VF_REFUSAL_TWIN_DEPTH-1: every refused call r, then every call o, against o alone.
            if (status == 0 && expand && orc.c10 && h.size() < (size_t)atoi(getenv("VF_REFUSAL_TWIN_DEPTH") ? getenv("VF_REFUSAL_TWIN_DEPTH") : "2")) {
                for (auto& r : doneOps) { if (r.oc == OK) continue; bool reported = false;
                    for (auto& o : doneOps) { if (reported) break;
                        World w3(wdir); WSnap p3; st.executions++;
                        if (!replay(w3, h, &p3) || p3.key != fkeys[pi]) break;
                        CallInfo c1; Outcome o1 = guarded([&] { ops[r.id].apply(w3, p3, c1); }); if (o1 == OK) break; WSnap mid = snapWorld(w3); if (mid.key != p3.key) break;   // (reported by tr_C10 already)
                        CallInfo c2; Outcome o2 = guarded([&] { ops[o.id].apply(w3, mid, c2); }); WSnap end = snapWorld(w3);
                        if (o2 != o.oc || end.key != o.post) { size_t b = sink.size(); V(sink, "C10", "refused_call_changes_later_call/" + ops[r.id].cls + "->" + ops[o.id].cls, "after the refused " + ops[r.id].name + ", " + ops[o.id].name + " ends in " + outcomeName(o2) + (o2 == o.oc ? " with another object" : std::string(" instead of ") + outcomeName(o.oc))); emitSink(r.id, b); reported = true; }
                    }
                }
            }
            // look-ups are pure: the whole sweep of accessors (by position, by name, present and absent, typed getters, print) made BEFORE a call must not change what the call does
            if (status == 0 && expand && orc.c11 && h.size() < (size_t)atoi(getenv("VF_LOOKUP_TWIN_DEPTH") ? getenv("VF_LOOKUP_TWIN_DEPTH") : "2")) {
                for (auto& o : doneOps) {
                    World w3(wdir); WSnap p3; st.executions++;
                    if (!replay(w3, h, &p3) || p3.key != fkeys[pi]) break;
                    { Sink ignore; C11Stats cs; sweep_C11(w3, p3, ignore, cs); guarded([&] { silencedPrint(*w3.c); }); }
                    WSnap mid = snapWorld(w3);
                    if (mid.key != p3.key) { size_t b = sink.size(); V(sink, "C11", "look-ups_changed_the_object", "the accessor sweep alone changed the public state"); emitSink(-1, b); break; }
                    CallInfo c2; Outcome o2 = guarded([&] { ops[o.id].apply(w3, mid, c2); }); WSnap end = snapWorld(w3);
                    if (o2 != o.oc || end.key != o.post) { size_t b = sink.size(); V(sink, "C11", "earlier_look-ups_change_later_call/" + ops[o.id].cls, "after the accessor sweep, " + ops[o.id].name + " ends in " + outcomeName(o2) + (o2 == o.oc ? " with another object" : std::string(" instead of ") + outcomeName(o.oc))); emitSink(o.id, b); break; }
                }
            }
            rec.insert(rec.end(), (unsigned char*)&pi, (unsigned char*)&pi + 4); rec.push_back(status);
            rec.insert(rec.end(), (unsigned char*)&nTrans, (unsigned char*)&nTrans + 2); rec.insert(rec.end(), trs.begin(), trs.end());
            fwrite(rec.data(), 1, rec.size(), fb); fflush(fb); fflush(fv); fflush(fd); flushStats();
        }
        crumb->done = 1; crumb->progress++;
        fclose(fb); fclose(fv); fclose(fd);
        fflush(stdout);
        _exit(0);
    }

    // ---- master ---------------------------------------------------------------------------------
    struct VRec { std::string prop, sig, detail; Hist hist; int op; uint64_t count; };
    struct Crash { std::string kind, detail; Hist hist; int op; };
    struct Result {
        std::vector<size_t> levels; size_t states = 0; Stats st; bool fixpoint = false, capped = false, deadlineHit = false; int depthCompleted = -1;
        std::map<std::pair<std::string, std::string>, VRec> viols; std::vector<Crash> crashes; std::vector<std::pair<Hist, std::string>> sanReports;
        std::vector<Hist> samples; int restarts = 0; size_t distinctOutcomesSeen = 0; std::vector<int> quarantined;
    };

    static std::string tailOf(const std::string& path, size_t n) { std::string s; readAll(path, s); if (s.size() > n) s = s.substr(s.size() - n); return s; }

    Result run() {
        Result R;
        std::unordered_set<Key, KeyHash> seen;
        std::vector<Hist> frontier; std::vector<Key> fkeys;
        {   World w(scratch); mkdir(scratch.c_str(), 0755); WSnap s = snapWorld(w); seen.insert(s.key); frontier.push_back({}); fkeys.push_back(s.key); }
        R.states = 1;
        Crumb* crumbs = (Crumb*)mmap(nullptr, sizeof(Crumb) * (size_t)workers, PROT_READ | PROT_WRITE, MAP_SHARED | MAP_ANONYMOUS, -1, 0);
        volatile uint32_t* crashCount = (volatile uint32_t*)mmap(nullptr, sizeof(uint32_t) * (ops.size() + 1), PROT_READ | PROT_WRITE, MAP_SHARED | MAP_ANONYMOUS, -1, 0);
        for (int level = 0;; ++level) {
            bool expand = level < maxDepth;
            R.levels.push_back(frontier.size());
            // clean files of this level
            for (int wi = 0; wi < workers; ++wi) for (const char* ext : {".bin", ".viol", ".dig", ".stat", ".err"}) unlink((scratch + "/L" + std::to_string(level) + ".w" + std::to_string(wi) + ext).c_str());
            std::vector<pid_t> pids((size_t)workers, 0); std::vector<std::set<SkipKey>> skips((size_t)workers); std::vector<uint32_t> from((size_t)workers, 0);
            std::vector<double> lastProg((size_t)workers, now()); std::vector<uint64_t> lastVal((size_t)workers, 0);
            auto spawn = [&](int wi) {
                crumbs[wi].parent = from[wi]; crumbs[wi].op = -1; crumbs[wi].done = 0; lastProg[wi] = now(); lastVal[wi] = crumbs[wi].progress;
                fflush(stdout); fflush(stderr);
                pid_t p = fork();
                if (p == 0) { worker(wi, level, frontier, fkeys, expand, from[wi], skips[wi], &crumbs[wi], crashCount); _exit(0); }
                pids[wi] = p;
            };
            int nw = std::min<size_t>((size_t)workers, frontier.size()); if (nw < 1) nw = 1;
            for (int wi = 0; wi < workers; ++wi) if ((size_t)wi < frontier.size()) spawn(wi);
            int live = 0; for (auto p : pids) if (p) live++;
            while (live > 0) {
                bool progressed = false;
                for (int wi = 0; wi < workers; ++wi) {
                    if (!pids[wi]) continue;
                    int stt = 0; pid_t r = waitpid(pids[wi], &stt, WNOHANG);
                    bool hang = false;
                    if (r == 0) {
                        if (crumbs[wi].progress != lastVal[wi]) { lastVal[wi] = crumbs[wi].progress; lastProg[wi] = now(); continue; }
                        else if (now() - lastProg[wi] > hangSecs) { kill(pids[wi], SIGKILL); waitpid(pids[wi], &stt, 0); hang = true; r = pids[wi]; }
                        else continue;
                    }
                    progressed = true;
                    bool clean = !hang && WIFEXITED(stt) && WEXITSTATUS(stt) == 0 && crumbs[wi].done;
                    if (getenv("VF_DEBUG")) fprintf(stderr, "[master] worker %d pid %d r=%d stt=%x done=%u parent=%u op=%d hang=%d\n", wi, (int)r, (int)r, stt, crumbs[wi].done, crumbs[wi].parent, crumbs[wi].op, (int)hang);
                    pids[wi] = 0; live--;
                    if (!clean) {
                        uint32_t pi = crumbs[wi].parent; int32_t op = crumbs[wi].op;
                        Crash c; c.hist = pi < frontier.size() ? frontier[pi] : Hist(); c.op = op;
                        std::string err = tailOf(scratch + "/L" + std::to_string(level) + ".w" + std::to_string(wi) + ".err", 6000);
                        if (hang) c.kind = "hang"; else if (WIFSIGNALED(stt)) c.kind = "signal " + std::to_string(WTERMSIG(stt)); else c.kind = "exit " + std::to_string(WEXITSTATUS(stt));
                        c.detail = err; R.crashes.push_back(c);
                        if (op >= 0) { crashCount[op] = crashCount[op] + 1; if (crashCount[op] == (uint32_t)QUARANTINE_AFTER) R.quarantined.push_back(op); }
                        if (++R.restarts > 400) { R.capped = true; continue; }
                        skips[wi].insert(SkipKey{pi, op}); from[wi] = pi; spawn(wi); live++;
                    }
                }
                if (!progressed) usleep(2000);
            }
            // ---- merge
            struct Tr { uint16_t op; uint8_t oc; Key k; };
            std::vector<std::vector<Tr>> trans(frontier.size()); std::vector<uint8_t> status(frontier.size(), 2);   // 2 = not processed
            for (int wi = 0; wi < workers; ++wi) {
                std::string base = scratch + "/L" + std::to_string(level) + ".w" + std::to_string(wi);
                std::string bin; if (readAll(base + ".bin", bin)) {
                    size_t p = 0;
                    while (p + 7 <= bin.size()) {
                        uint32_t pi; uint8_t stt; uint16_t nt; memcpy(&pi, &bin[p], 4); stt = (uint8_t)bin[p + 4]; memcpy(&nt, &bin[p + 5], 2); p += 7;
                        if (pi >= frontier.size()) break;
                        status[pi] = stt; trans[pi].clear();
                        for (uint16_t k = 0; k < nt && p + 19 <= bin.size(); ++k) { Tr t; memcpy(&t.op, &bin[p], 2); t.oc = (uint8_t)bin[p + 2]; memcpy(&t.k, &bin[p + 3], 16); p += 19; trans[pi].push_back(t); }
                    }
                }
                std::string st; if (readAll(base + ".stat", st)) for (size_t p = 0; p + sizeof(Stats) <= st.size(); p += sizeof(Stats)) { Stats s; memcpy(&s, &st[p], sizeof s); R.st.add(s); }
                std::ifstream fv(base + ".viol"); std::string line;
                while (std::getline(fv, line)) {
                    std::vector<std::string> f; size_t a = 0; for (int k = 0; k < 4; ++k) { size_t b = line.find('\t', a); if (b == std::string::npos) break; f.push_back(line.substr(a, b - a)); a = b + 1; } f.push_back(line.substr(a));
                    if (f.size() < 5) continue;
                    uint32_t pi = (uint32_t)strtoul(f[2].c_str(), nullptr, 10); int op = atoi(f[3].c_str());
                    if (pi >= frontier.size()) continue;
                    if (f[0] == "SAN") { Hist h = frontier[pi]; if (op >= 0) h.push_back((uint16_t)op); R.sanReports.push_back({h, f[4] + (op == -1 ? " [in state probe]" : op == -2 ? " [in destructor/cleanup]" : "")}); continue; }
                    auto key = std::make_pair(f[0], f[1]); auto it = R.viols.find(key);
                    Hist h = frontier[pi]; if (op >= 0) h.push_back((uint16_t)op);
                    if (it == R.viols.end()) R.viols[key] = VRec{f[0], f[1], f[4], h, op, 1};
                    else { it->second.count++; if (h.size() < it->second.hist.size()) { it->second.hist = h; it->second.detail = f[4]; it->second.op = op; } }
                }
                if (orc.c14 || orc.transcript) {
                    std::ifstream fdg(base + ".dig"); std::string l; FILE* f = fopen((scratch + "/digests.txt").c_str(), "a");
                    while (std::getline(fdg, l)) { size_t sp = l.rfind(' '); if (sp == std::string::npos) continue; long pi = atol(l.c_str() + sp + 1); if (pi < 0 || (size_t)pi >= frontier.size()) continue; fprintf(f, "%s\t%s\n", l.substr(0, sp).c_str(), histText(frontier[(size_t)pi]).c_str()); }
                    fclose(f);
                }
                for (const char* ext : {".bin", ".viol", ".dig", ".stat"}) unlink((base + ext).c_str());
            }
            bool incomplete = false; for (size_t i = 0; i < frontier.size(); ++i) if (status[i] == 2) incomplete = true;
            if (now() > deadline && incomplete) { R.deadlineHit = true; break; }
            if (incomplete && R.capped) break;
            R.depthCompleted = level;
            { R.samples.push_back(frontier[frontier.size() / 2]); if (frontier.size() > 2) R.samples.push_back(frontier.back()); while (R.samples.size() > 8) R.samples.erase(R.samples.begin()); }   // the deepest levels' middle / last histories
            if (!expand) break;
            if (!transcriptPath.empty()) {   // C19: one line per transition, in deterministic BFS order
                FILE* tf = fopen(transcriptPath.c_str(), "a");
                for (size_t pi = 0; pi < frontier.size(); ++pi) for (auto& t : trans[pi]) fprintf(tf, "%s | %s -> %s %s\n", histText(frontier[pi]).c_str(), ops[t.op].name.c_str(), outcomeName(t.oc), t.k.hex().c_str());
                fclose(tf);
            }
            std::vector<Hist> next; std::vector<Key> nkeys;
            for (size_t pi = 0; pi < frontier.size(); ++pi) for (auto& t : trans[pi]) {
                if (seen.insert(t.k).second) { Hist h = frontier[pi]; h.push_back(t.op); next.push_back(std::move(h)); nkeys.push_back(t.k); }
            }
            R.states += next.size();
            if (next.empty()) { R.fixpoint = true; break; }
            if (R.states > maxStates) { R.capped = true; frontier.swap(next); fkeys.swap(nkeys); maxDepth = level + 1; continue; }   // probe the last level, expand no further
            frontier.swap(next); fkeys.swap(nkeys);
        }
        munmap(crumbs, sizeof(Crumb) * (size_t)workers);
        return R;
    }
};

} // namespace vf
