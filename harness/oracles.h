// oracles.h — per-property oracles of engine A. Each oracle checks ONLY what its property states;
// everything the statement leaves open is a don't-care.
#pragma once
#include "ops.h"
#include <set>
#include <algorithm>

namespace vf {

struct Viol { std::string prop, sig, detail; };
using Sink = std::vector<Viol>;
inline void V(Sink& s, const char* prop, const std::string& sig, const std::string& detail) { s.push_back({prop, sig, detail}); }
inline std::string S(size_t v) { return std::to_string(v); }
inline std::string SI(long long v) { return std::to_string(v); }

// ================================================================================================
// C05 — header, POINT/ANALOG parameters and stored data agree (state invariant)
// ================================================================================================
inline std::string stateClass(const OSnap& o) {
    bool anyFilled = false; for (auto& f : o.frames) if (!f.empty()) anyFilled = true;
    std::string c;
    c += pInt(o, "POINT", "USED") > 0 ? "P+" : "P0";
    c += pInt(o, "ANALOG", "USED") > 0 ? "C+" : "C0";
    c += o.frames.empty() ? "F0" : (anyFilled ? "F+" : "Fe");
    return c;
}
inline void inv_C05(const OSnap& o, Sink& out, bool declaredThroughApi = true) {
    const GSnap* gp = o.group("POINT"); const GSnap* ga = o.group("ANALOG");
    if (!gp || !ga) { V(out, "C05", "mandatory_group_missing", "POINT or ANALOG group absent"); return; }
    const PSnap* pUsed = gp->find("USED"); const PSnap* pFrames = gp->find("FRAMES"); const PSnap* pRate = gp->find("RATE");
    std::string cls = stateClass(o);
    std::vector<const FrSnap*> filled; for (auto& f : o.frames) if (!f.empty()) filled.push_back(&f);
    // -- point count
    if (pUsed && pUsed->type == ezc3d::DATA_TYPE::INT && !pUsed->ints.empty()) {
        size_t used = (size_t)pUsed->ints[0];
        if (o.h.nPoints != used) V(out, "C05", "hdr_points/hdr=" + S(o.h.nPoints) + ",USED=" + S(used) + "/" + cls, "header point count != POINT:USED");
        for (auto f : filled) if (f->pts.size() != used) { V(out, "C05", "data_points/USED=" + S(used) + ",frame=" + S(f->pts.size()) + "/" + cls, "POINT:USED != points in a filled frame"); break; }
    } else V(out, "C05", "POINT:USED_missing", "");
    // -- frame count
    if (pFrames && pFrames->type == ezc3d::DATA_TYPE::INT && !pFrames->ints.empty()) {
        size_t fr = (size_t)pFrames->ints[0];
        if (o.h.nFrames != fr || fr != o.frames.size()) {
            std::string detail = "header frame count " + S(o.h.nFrames) + ", POINT:FRAMES " + S(fr) + ", stored frames " + S(o.frames.size());
            if (o.h.nPoints == 0 && o.h.nAnalogs == 0 && o.h.nFrames == 0)   // header derives 0 frames whenever it has neither points nor channels
                V(out, "C05", std::string("hdr_frames/header-says-0-without-points-or-channels/") + (fr == o.frames.size() ? "FRAMES=stored" : "FRAMES!=stored"), detail);
            else V(out, "C05", "hdr_frames/hdr=" + S(o.h.nFrames) + ",FRAMES=" + S(fr) + ",stored=" + S(o.frames.size()) + "/" + cls, detail);
        }
    } else V(out, "C05", "POINT:FRAMES_missing", "");
    // -- rate
    if (pRate && pRate->type == ezc3d::DATA_TYPE::FLOAT && !pRate->floats.empty()) {
        float r = bitsf(pRate->floats[0]), h = bitsf(o.h.rate);
        if (!(std::fabs((double)r - (double)h) < 1e-4)) V(out, "C05", "hdr_rate/" + cls, "header rate " + fstr(h) + " != POINT:RATE " + fstr(r));
    } else V(out, "C05", "POINT:RATE_missing", "");
    // -- analogs
    const PSnap* aUsed = ga->find("USED");
    long aused = (aUsed && aUsed->type == ezc3d::DATA_TYPE::INT && !aUsed->ints.empty()) ? aUsed->ints[0] : -1;
    size_t spf = o.h.subPerFrame;
    for (auto f : filled) {
        if (!f->subs.empty() && f->subs.size() != spf) { V(out, "C05", "hdr_subframes/hdr=" + S(spf) + ",frame=" + S(f->subs.size()) + "/" + cls, "header sub-frames per frame != sub-frames in a filled frame"); break; }
        if (f->subs.empty() && aused > 0) { V(out, "C05", "frame_without_subframes/ANALOG:USED=" + SI(aused) + "/" + cls, "channels are declared but a filled frame has no sub-frame"); break; }
    }
    if (spf >= 1 && aused >= 0) {
        if (o.h.nAnalogs != (size_t)aused) V(out, "C05", "hdr_channels/hdr=" + S(o.h.nAnalogs) + ",USED=" + SI(aused) + "/" + cls, "header channel count != ANALOG:USED");
        if (o.h.nAnalogMeas != (size_t)aused * spf) V(out, "C05", "hdr_samples/hdr=" + S(o.h.nAnalogMeas) + ",USED=" + SI(aused) + ",spf=" + S(spf) + "/" + cls, "analog samples per frame != channels x sub-frames");
        bool bad = false;
        for (auto f : filled) { for (auto& sf : f->subs) if (sf.size() != (size_t)aused) { bad = true; break; } if (bad) break; }
        if (bad) V(out, "C05", "data_channels/USED=" + SI(aused) + "/" + cls, "ANALOG:USED != channels in a sub-frame");
    }
    // -- label-like lists: one entry per point / channel, in data order (the statement's condition: points and channels declared by name
    //    through the API; an object loaded from a vendor-style file may legitimately carry a single UNITS string or spare labels)
    if (!declaredThroughApi) return;
    if (pUsed && !pUsed->ints.empty()) {
        size_t used = (size_t)pUsed->ints[0];
        const PSnap* lab = gp->find("LABELS");
        bool declaredByName = lab && lab->strs.size() == used ? true : (lab && !lab->strs.empty());
        if (declaredByName || used > 0) {
            for (const char* nm : {"LABELS", "DESCRIPTIONS", "UNITS"}) {
                const PSnap* p = gp->find(nm);
                if (!p) { V(out, "C05", std::string("point_list_missing/") + nm, ""); continue; }
                if (p->type == ezc3d::DATA_TYPE::CHAR && p->strs.size() != used) V(out, "C05", std::string("point_list_size/") + nm + "=" + S(p->strs.size()) + ",USED=" + S(used) + "/" + cls, "POINT label-like list size != POINT:USED");
            }
            if (lab && lab->strs.size() == used) for (auto f : filled) {
                bool bad = false; for (size_t i = 0; i < used && i < f->pts.size(); ++i) if (f->pts[i].name != lab->strs[i]) bad = true;
                if (bad) { V(out, "C05", "point_labels_order/" + cls, "POINT:LABELS not in data order"); break; }
            }
        }
    }
    if (aused >= 0 && spf >= 1) {
        const PSnap* lab = ga->find("LABELS");
        if (aused > 0 || (lab && !lab->strs.empty())) {
            for (const char* nm : {"LABELS", "DESCRIPTIONS", "SCALE", "OFFSET", "UNITS"}) {
                const PSnap* p = ga->find(nm);
                if (!p) { V(out, "C05", std::string("analog_list_missing/") + nm, ""); continue; }
                size_t n = p->type == ezc3d::DATA_TYPE::CHAR ? p->strs.size() : (p->type == ezc3d::DATA_TYPE::FLOAT ? p->floats.size() : p->ints.size());
                if (n != (size_t)aused) V(out, "C05", std::string("analog_list_size/") + nm + "=" + S(n) + ",USED=" + SI(aused) + "/" + cls, "ANALOG label-like list size != ANALOG:USED");
            }
            if (lab && lab->strs.size() == (size_t)aused) for (auto f : filled) {
                bool bad = false; for (auto& sf : f->subs) for (size_t i = 0; i < (size_t)aused && i < sf.size(); ++i) if (sf[i].name != lab->strs[i]) bad = true;
                if (bad) { V(out, "C05", "analog_labels_order/" + cls, "ANALOG:LABELS not in data order"); break; }
            }
        }
    }
}

// ================================================================================================
// C06 — append / replace / extend exactly as documented; column adds change exactly one column
// ================================================================================================
inline std::string frameDiffKind(const FrSnap& want, const FrSnap& got) {
    if (want.sameContent(got)) return "";
    if (want.sameContentNoResidual(got)) return "residual";
    if (want.pts.size() != got.pts.size()) return "point_count";
    if (want.subs.size() != got.subs.size()) return "subframe_count";
    for (size_t i = 0; i < want.pts.size(); ++i) if (want.pts[i].name != got.pts[i].name) return "point_name";
    for (size_t i = 0; i < want.pts.size(); ++i) if (!want.pts[i].eqXYZ(got.pts[i])) return "point_xyz";
    return "analog";
}
// every non-empty stored frame has the same number of points, sub-frames and channels per sub-frame
inline bool uniformFilled(const OSnap& o) {
    const FrSnap* ref = nullptr;
    for (auto& f : o.frames) { if (f.empty()) continue; if (!ref) { ref = &f; } if (f.pts.size() != ref->pts.size() || f.subs.size() != ref->subs.size()) return false; for (auto& sf : f.subs) if (sf.size() != (ref->subs.empty() ? 0 : ref->subs[0].size())) return false; }
    return true;
}
inline void tr_C06(const WSnap& pre, const CallInfo& ci, Outcome oc, const WSnap& post, Sink& out, const char* prop = "C06") {
    if (oc != OK) return;
    if (ci.kind == K_REG_BUILD && ci.dev == "intent" && ci.reg >= 0 && post.regset[ci.reg]) {   // the caller's own frame, assembled point by point
        std::string d = frameDiffKind(ci.given, post.reg[ci.reg]);
        if (!d.empty()) V(out, prop, "assembled_frame_loses_content/" + d, "a frame assembled through Point/Points/Channel/SubFrame/Analogs does not hold the values that were put in");
        return;
    }
    if (std::string(prop) != "C06") {   // C01 rides on the frame clause only: "every point keeps its name, x, y, z and residual"
        if (ci.kind == K_FRAME) { size_t n = pre.o.frames.size(), tgt = ci.append ? n : ci.idx; if (tgt < post.o.frames.size()) { std::string d = frameDiffKind(ci.given, post.o.frames[tgt]); if (!d.empty()) V(out, prop, "assembled_content_lost_on_store/" + d, "stored frame differs from the values handed over"); } }
        return;
    }
    size_t n = pre.o.frames.size();
    if (ci.kind == K_FRAME) {
        std::string mode = ci.append ? "append" : (ci.idx < n ? "replace" : "extend");
        size_t want = framesAfter(ci.append, ci.idx, n), tgt = ci.append ? n : ci.idx;
        if (post.o.frames.size() != want) { V(out, "C06", "count/" + mode, "frames after=" + S(post.o.frames.size()) + " expected " + S(want)); return; }
        std::string d = frameDiffKind(ci.given, post.o.frames[tgt]);
        if (!d.empty()) V(out, "C06", "target_content/" + mode + "/" + d, "stored target frame differs from the given frame");
        for (size_t i = 0; i < n; ++i) if (i != tgt) { std::string e = frameDiffKind(pre.o.frames[i], post.o.frames[i]); if (!e.empty()) { V(out, "C06", "other_frame_changed/" + mode + "/" + e, "frame " + S(i) + " changed while target was " + S(tgt)); break; } }
        for (size_t i = n; i < tgt; ++i) if (!post.o.frames[i].empty()) { V(out, "C06", "gap_not_empty/" + mode, "frame " + S(i) + " in the gap is not empty"); break; }
    } else if ((ci.kind == K_COL_POINT || ci.kind == K_COL_ANALOG || ci.kind == K_POINT_NAME || ci.kind == K_ANALOG_NAME) && !uniformFilled(pre.o)) {
        return;   // the filled frames already disagree in shape (an undocumented deviation was accepted earlier): "exactly that one column" is not defined
    } else if (ci.kind == K_COL_POINT || ci.kind == K_COL_ANALOG) {
        std::string what = ci.kind == K_COL_POINT ? "point" : "analog";
        if (post.o.frames.size() != n) { V(out, "C06", "column/" + what + "/frame_count", ""); return; }
        for (size_t f = 0; f < n && f < ci.givenFrames.size(); ++f) {
            FrSnap want = pre.o.frames[f];
            if (ci.kind == K_COL_POINT) for (auto& p : ci.givenFrames[f].pts) want.pts.push_back(p);
            else for (size_t s = 0; s < want.subs.size() && s < ci.givenFrames[f].subs.size(); ++s) for (auto& c : ci.givenFrames[f].subs[s]) want.subs[s].push_back(c);
            std::string d = frameDiffKind(want, post.o.frames[f]);
            if (!d.empty()) { V(out, "C06", "column/" + what + "/" + d, "frame " + S(f) + " is not 'old frame + the new column'"); break; }
        }
    } else if (ci.kind == K_POINT_NAME || ci.kind == K_ANALOG_NAME) {
        if (post.o.frames.size() != n) { V(out, "C06", "column/name/frame_count", ""); return; }
        std::string nm = ci.name; vf::trimSpaces(nm);
        for (size_t f = 0; f < n; ++f) {
            const FrSnap& a = pre.o.frames[f]; const FrSnap& b = post.o.frames[f]; bool bad = false;
            if (ci.kind == K_POINT_NAME) {
                if (b.pts.size() != a.pts.size() + 1 || b.subs != a.subs) bad = true;
                else { for (size_t i = 0; i < a.pts.size(); ++i) if (a.pts[i] != b.pts[i]) bad = true; if (b.pts.back().name != nm) bad = true; }
            } else {
                if (b.pts != a.pts || b.subs.size() != a.subs.size()) bad = true;
                else for (size_t s = 0; s < a.subs.size(); ++s) {
                    if (b.subs[s].size() != a.subs[s].size() + 1) { bad = true; break; }
                    for (size_t i = 0; i < a.subs[s].size(); ++i) if (a.subs[s][i] != b.subs[s][i]) bad = true;
                    if (b.subs[s].back().name != nm) bad = true;
                }
            }
            if (bad) { V(out, "C06", std::string("column/name/") + (ci.kind == K_POINT_NAME ? "point" : "analog"), "frame " + S(f) + " did not gain exactly one trailing column"); break; }
        }
    }
}

// ================================================================================================
// C07 — documented preconditions of the frame-adding calls (three-valued verdict from the PRE-state)
// ================================================================================================
struct Verdict { enum T { DONT_CARE, MUST_ACCEPT, MUST_REFUSE } t = DONT_CARE; std::set<int> classes; std::string why; };
inline bool has(const std::vector<std::string>& v, const std::string& s) { return std::find(v.begin(), v.end(), s) != v.end(); }
inline std::vector<std::string> ptNames(const FrSnap& f) { std::vector<std::string> v; for (auto& p : f.pts) v.push_back(p.name); return v; }
inline std::vector<std::string> chNames(const FrSnap& f) { std::vector<std::string> v; if (!f.subs.empty()) for (auto& c : f.subs[0]) v.push_back(c.name); return v; }
inline bool distinct(std::vector<std::string> v) { std::sort(v.begin(), v.end()); return std::adjacent_find(v.begin(), v.end()) == v.end(); }

inline Verdict expect_C07(const WSnap& pre, const CallInfo& ci) {
    Verdict v; const OSnap& o = pre.o; size_t n = o.frames.size();
    int used = pInt(o, "POINT", "USED"), aused = pInt(o, "ANALOG", "USED");
    float prate = pFloat(o, "POINT", "RATE"), arate = pFloat(o, "ANALOG", "RATE");
    std::vector<std::string> labels = pStrs(o, "POINT", "LABELS"), alabels = pStrs(o, "ANALOG", "LABELS");
    for (int k = 2; k < 20; ++k) {   // the C3D convention for more than 255 names: LABELS2, LABELS3, … continue LABELS (an implementation that writes them must also read them in its guards)
        std::string nm = "LABELS" + std::to_string(k); const GSnap* pg = o.group("POINT"); const GSnap* ag = o.group("ANALOG"); bool any = false;
        if (pg && pg->find(nm.c_str())) { for (auto& x : pg->find(nm.c_str())->strs) labels.push_back(x); any = true; } if (ag && ag->find(nm.c_str())) { for (auto& x : ag->find(nm.c_str())->strs) alabels.push_back(x); any = true; } if (!any) break; }
    {   // the statement speaks of POINT:USED, POINT:RATE and POINT:LABELS: on an object loaded from a file that carries no POINT:LABELS (legal without points) its predicates are undefined
        const GSnap* pg = o.group("POINT"); bool pointDeclared = pg && pg->find("USED") && pg->find("RATE") && pg->find("LABELS");
        if (!pointDeclared && (ci.kind == K_FRAME || ci.kind == K_COL_POINT || ci.kind == K_POINT_NAME)) return v;
    }
    if (ci.kind == K_FRAME) {
        const FrSnap& f = ci.given; std::vector<std::string> names = ptNames(f);
        if (used != 0 && f.pts.size() != (size_t)used) { v.classes.insert(RUNTIME_ERROR); v.why += "point count != POINT:USED; "; }
        for (auto& l : labels) if (!has(names, l)) { v.classes.insert(INVALID_ARGUMENT); v.why += "label missing; "; break; }
        if (!f.pts.empty() && prate == 0.0f) { v.classes.insert(RUNTIME_ERROR); v.why += "points while POINT:RATE==0; "; }
        // an object loaded from a file whose ANALOG group holds no parameter (Optotrak layout) declares nothing about analogs: the analog clauses are
        // undefined for a frame that brings samples (don't care); sub-frames without any channel carry no sample
        const GSnap* ag = o.group("ANALOG"); bool analogDeclared = ag && ag->find("USED") && ag->find("RATE");
        bool noSamples = true; for (auto& sb : f.subs) if (!sb.empty()) noSamples = false;
        if (!analogDeclared && !noSamples) { if (!v.classes.empty()) v.t = Verdict::MUST_REFUSE; return v; }
        if (!noSamples && arate == 0.0f) { v.classes.insert(RUNTIME_ERROR); v.why += "analogs while ANALOG:RATE==0; "; }
        if (aused != 0 && !f.subs.empty() && f.subs[0].size() != (size_t)aused) { v.classes.insert(RUNTIME_ERROR); v.why += "channel count != ANALOG:USED; "; }
        if (!v.classes.empty()) { v.t = Verdict::MUST_REFUSE; return v; }
        // conforming?
        bool ptsOk = (names == labels) && f.pts.size() == (size_t)used && used > 0 ? true : (used == 0 && labels.empty() && f.pts.empty());
        bool uniform = true; for (auto& s : f.subs) if (s.size() != f.subs[0].size()) uniform = false;
        bool anOk;
        if (aused > 0) anOk = uniform && f.subs.size() == o.h.subPerFrame && o.h.subPerFrame >= 1 && chNames(f) == alabels && alabels.size() == (size_t)aused;
        else anOk = alabels.empty() && (f.subs.empty() || (noSamples && (arate != 0.0f || !analogDeclared)));   // sub-frames without channels == no analogs (accepted by the library unless a declared ANALOG:RATE is 0)
        bool any = !f.pts.empty() || !f.subs.empty();
        if (ptsOk && anOk && any && (used > 0 || aused > 0)) { v.t = Verdict::MUST_ACCEPT; v.why = "frame matches declared names, counts, rates and sub-frame ratio"; }
        return v;
    }
    if (ci.kind == K_COL_POINT) {
        const auto& fr = ci.givenFrames;
        if (fr.empty()) { v.classes.insert(INVALID_ARGUMENT); v.why += "nothing supplied; "; }
        if (fr.size() != n) { v.classes.insert(INVALID_ARGUMENT); v.why += "frame count differs; "; }
        if (!fr.empty() && fr[0].pts.empty()) { v.classes.insert(INVALID_ARGUMENT); v.why += "no point supplied; "; }
        if (!fr.empty()) for (auto& nm : ptNames(fr[0])) if (has(labels, nm)) { v.classes.insert(INVALID_ARGUMENT); v.why += "name exists; "; break; }
        if (!v.classes.empty()) { v.t = Verdict::MUST_REFUSE; return v; }
        bool same = true; for (auto& f : fr) if (ptNames(f) != ptNames(fr[0])) same = false;
        std::vector<std::string> existing = labels; for (auto& f : o.frames) for (auto& p : f.pts) existing.push_back(p.name);
        bool fresh = true; for (auto& nm : ptNames(fr[0])) if (has(existing, nm)) fresh = false;
        if (n > 0 && same && fresh && distinct(ptNames(fr[0]))) { v.t = Verdict::MUST_ACCEPT; v.why = "conforming point column"; }
        return v;
    }
    if ((ci.kind == K_COL_ANALOG || ci.kind == K_ANALOG_NAME) && !(o.group("ANALOG") && o.group("ANALOG")->find("USED") && o.group("ANALOG")->find("LABELS"))) return v;   // nothing about analogs is declared (empty ANALOG group): outside the statement
    if (ci.kind == K_COL_ANALOG) {
        const auto& fr = ci.givenFrames; size_t spf = o.h.subPerFrame;
        size_t storedSub = 0; bool storedUniform = true; if (n) { storedSub = o.frames[0].subs.size(); for (auto& f : o.frames) if (f.subs.size() != storedSub) storedUniform = false; }
        if (fr.empty()) { v.classes.insert(INVALID_ARGUMENT); v.why += "nothing supplied; "; }
        if (fr.size() != n) { v.classes.insert(INVALID_ARGUMENT); v.why += "frame count differs; "; }
        if (!fr.empty() && n > 0 && fr[0].subs.size() != spf && fr[0].subs.size() != storedSub) { v.classes.insert(INVALID_ARGUMENT); v.why += "sub-frame count differs; "; }
        if (!fr.empty() && n > 0 && storedUniform && storedSub >= 1 && fr[0].subs.size() != storedSub) { v.classes.insert(INVALID_ARGUMENT); v.why += "sub-frame count differs from what every stored frame holds; "; }
        if (!fr.empty() && !fr[0].subs.empty() && fr[0].subs[0].empty()) { v.classes.insert(INVALID_ARGUMENT); v.why += "no channel supplied; "; }
        if (!fr.empty() && fr[0].subs.empty()) { v.classes.insert(INVALID_ARGUMENT); v.why += "no sub-frame, hence no channel, supplied; "; }
        if (!fr.empty()) for (auto& nm : chNames(fr[0])) if (has(alabels, nm)) { v.classes.insert(INVALID_ARGUMENT); v.why += "name exists; "; break; }
        if (!v.classes.empty()) { v.t = Verdict::MUST_REFUSE; return v; }
        bool same = true; for (auto& f : fr) { if (f.subs.size() != spf) same = false; for (auto& s : f.subs) { std::vector<std::string> nn; for (auto& c : s) nn.push_back(c.name); if (nn != chNames(fr[0])) same = false; } }
        std::vector<std::string> existing = alabels; for (auto& f : o.frames) for (auto& s : f.subs) for (auto& c : s) existing.push_back(c.name);
        bool fresh = true; for (auto& nm : chNames(fr[0])) if (has(existing, nm)) fresh = false;
        { bool sameAsStored = true; for (auto& f : fr) if (f.subs.size() != storedSub) sameAsStored = false;
          bool storedDeclared = true; if (n > 0 && storedSub >= 1) { std::vector<std::string> sn; for (auto& c : o.frames[0].subs[0]) sn.push_back(c.name); storedDeclared = sn == alabels; }   // (channels put into a stored frame behind the object's back are not declared: the object is inconsistent by the caller's doing)
          if (n > 0 && storedUniform && storedSub >= 1 && sameAsStored && storedDeclared) { bool nm = true; for (auto& f : fr) for (auto& sb : f.subs) { std::vector<std::string> nn; for (auto& c : sb) nn.push_back(c.name); if (nn != chNames(fr[0])) nm = false; }
              if (nm && fresh && !chNames(fr[0]).empty() && distinct(chNames(fr[0]))) { v.t = Verdict::MUST_ACCEPT; v.why = "channel column matching the stored sub-frames"; return v; } } }
        if (n > 0 && spf >= 1 && storedUniform && storedSub == spf && same && fresh && !chNames(fr[0]).empty() && distinct(chNames(fr[0]))) { v.t = Verdict::MUST_ACCEPT; v.why = "conforming channel column"; }
        return v;
    }
    if (ci.kind == K_POINT_NAME && n > 0) {
        std::string nm = ci.name; vf::trimSpaces(nm);
        if (has(labels, nm)) { v.t = Verdict::MUST_REFUSE; v.classes.insert(INVALID_ARGUMENT); v.why = "name exists"; return v; }
        std::vector<std::string> existing; for (auto& f : o.frames) for (auto& p : f.pts) existing.push_back(p.name);
        if (!has(existing, nm)) { v.t = Verdict::MUST_ACCEPT; v.why = "new point name on existing frames"; }
        return v;
    }
    if (ci.kind == K_ANALOG_NAME && n > 0) {
        std::string nm = ci.name; vf::trimSpaces(nm);
        if (has(alabels, nm)) { v.t = Verdict::MUST_REFUSE; v.classes.insert(INVALID_ARGUMENT); v.why = "name exists"; return v; }
        size_t spf = o.h.subPerFrame; bool ok = spf >= 1; for (auto& f : o.frames) if (f.subs.size() != spf) ok = false;
        std::vector<std::string> existing; for (auto& f : o.frames) for (auto& s : f.subs) for (auto& c : s) existing.push_back(c.name);
        if (ok && !has(existing, nm)) { v.t = Verdict::MUST_ACCEPT; v.why = "new channel name on existing frames"; }
        return v;
    }
    return v;
}
inline void tr_C07(const WSnap& pre, const CallInfo& ci, Outcome oc, const WSnap&, Sink& out, int* verdictKind = nullptr) {
    if (!(ci.kind == K_FRAME || ci.kind == K_COL_POINT || ci.kind == K_COL_ANALOG || ci.kind == K_POINT_NAME || ci.kind == K_ANALOG_NAME)) return;
    Verdict v = expect_C07(pre, ci); if (verdictKind) *verdictKind = (int)v.t;
    std::string cls = ci.kind == K_FRAME ? "frame" : ci.kind == K_COL_POINT ? "point(vector)" : ci.kind == K_COL_ANALOG ? "analog(vector)" : ci.kind == K_POINT_NAME ? "point(name)" : "analog(name)";
    if (v.t == Verdict::MUST_ACCEPT && oc != OK)
        V(out, "C07", std::string("accept->") + outcomeName(oc) + "/" + cls + "/" + ci.dev, "a conforming call was refused (" + v.why + ")");
    if (v.t == Verdict::MUST_REFUSE && !v.classes.count((int)oc)) {
        std::string want; for (int c : v.classes) { if (!want.empty()) want += "|"; want += outcomeName(c); }
        V(out, "C07", want + "->" + outcomeName(oc) + "/" + cls + "/" + ci.dev, "documented refusal not honoured: " + v.why);
    }
}

// ================================================================================================
// C08 — stored data independent of the caller's objects and of other frames
// ================================================================================================
inline bool regsSame(const WSnap& a, const WSnap& b) {
    for (int r = 0; r < 2; ++r) { if (a.regset[r] != b.regset[r]) return false; if (a.regset[r] && !a.reg[r].sameContent(b.reg[r])) return false; }
    return true;
}
inline std::string byNameTrouble(const WSnap& s) { for (size_t i = 0; i < s.o.frames.size(); ++i) if (!s.o.frames[i].byNameMismatch.empty()) return "stored frame " + S(i) + ": " + s.o.frames[i].byNameMismatch; for (int r = 0; r < 2; ++r) if (s.regset[r] && !s.reg[r].byNameMismatch.empty()) return "caller frame R" + S((size_t)r) + ": " + s.reg[r].byNameMismatch; return ""; }
inline void tr_C08(const WSnap& pre, const CallInfo& ci, Outcome oc, const WSnap& post, const std::string& opcls, Sink& out) {
    if (byNameTrouble(pre).empty() && !byNameTrouble(post).empty()) V(out, "C08", "by_name_view_differs_from_positions/" + opcls, byNameTrouble(post));
    bool callerSide = ci.kind == K_REG_BUILD || ci.kind == K_REG_MUT || ci.kind == K_REG_EXT;
    if (callerSide) {
        if (!pre.o.sameContent(post.o)) V(out, "C08", "caller_change_visible_in_object/" + opcls, "a change to the caller's own frame changed what the object stores");
        return;
    }
    if (ci.kind == K_RELOAD || ci.kind == K_LOAD_ROOT) return;
    if (ci.dev.compare(0, 14, "copy-of-stored") != 0 && !regsSame(pre, post)) V(out, "C08", "object_call_changed_caller_frame/" + opcls, "an object-side call changed the caller's frame object");
    if (oc != OK) return;
    if (ci.kind == K_EDIT_STORED) {
        for (size_t i = 0; i < pre.o.frames.size() && i < post.o.frames.size(); ++i)
            if (i != ci.editFrame && !pre.o.frames[i].sameContent(post.o.frames[i])) { V(out, "C08", "stored_frames_not_independent/edit", "editing stored frame " + S(ci.editFrame) + " changed frame " + S(i)); break; }
    }
    if (ci.kind == K_POINT_NAME || ci.kind == K_COL_POINT) {
        size_t k = ci.kind == K_POINT_NAME ? 1 : (ci.givenFrames.empty() ? 0 : ci.givenFrames[0].pts.size());
        for (size_t i = 0; i < pre.o.frames.size() && i < post.o.frames.size(); ++i)
            if (post.o.frames[i].pts.size() != pre.o.frames[i].pts.size() + k) { V(out, "C08", "column_not_added_exactly_once/point", "frame " + S(i) + " went from " + S(pre.o.frames[i].pts.size()) + " to " + S(post.o.frames[i].pts.size()) + " points"); break; }
    }
    if (ci.kind == K_ANALOG_NAME || ci.kind == K_COL_ANALOG) {
        size_t k = ci.kind == K_ANALOG_NAME ? 1 : ((ci.givenFrames.empty() || ci.givenFrames[0].subs.empty()) ? 0 : ci.givenFrames[0].subs[0].size());
        bool bad = false;
        if (!uniformFrames(pre.o)) return;   // frames with different sub-frame counts (accepted by the library, announced by no header): "every sub-frame" has no reference there
        for (size_t i = 0; i < pre.o.frames.size() && i < post.o.frames.size() && !bad; ++i)
            for (size_t s = 0; s < pre.o.frames[i].subs.size() && s < post.o.frames[i].subs.size(); ++s)
                if (post.o.frames[i].subs[s].size() != pre.o.frames[i].subs[s].size() + k) { bad = true; break; }
        if (bad) V(out, "C08", "column_not_added_exactly_once/analog", "a sub-frame did not gain exactly the new channel(s)");
    }
    if (ci.kind == K_FRAME) {   // replacing / adding one frame must not touch another one (also C06; here: through sharing)
        size_t n = pre.o.frames.size(), tgt = ci.append ? n : ci.idx;
        for (size_t i = 0; i < n && i < post.o.frames.size(); ++i) if (i != tgt && !pre.o.frames[i].sameContent(post.o.frames[i])) { V(out, "C08", "stored_frames_not_independent/frame", "storing frame " + S(tgt) + " changed frame " + S(i)); break; }
    }
}

// ================================================================================================
// C09 — parameter and group edits change exactly what was asked
// ================================================================================================
inline void tr_C09(const WSnap& pre, const CallInfo& ci, Outcome oc, const WSnap& post, Sink& out) {
    if (oc != OK && ci.kind == K_PARAM) {   // "adding a parameter … creates / replaces / appends": a named, typed parameter whose values fill its dimensions is never refused
        const PSnap& g = ci.givenParam; bool typed = g.type == -1 || g.type == 1 || g.type == 2 || g.type == 4;
        if (!g.name.empty() && typed) V(out, "C09", std::string("well_formed_parameter_refused/") + outcomeName(oc) + "/type=" + SI(g.type), ci.group + ":" + g.name);
    }
    if (oc != OK) return;
    const OSnap& a = pre.o; const OSnap& b = post.o;
    if (ci.kind == K_PARAM) {
        int gi = a.groupIdx(ci.group);
        if (gi < 0) {
            if (b.groups.size() != a.groups.size() + 1 || b.groups.back().name != ci.group) { V(out, "C09", "group_not_created_at_end", "group " + ci.group); return; }
            for (size_t i = 0; i < a.groups.size(); ++i) if (a.groups[i] != b.groups[i]) { V(out, "C09", "other_group_changed/new_group", "group " + a.groups[i].name); return; }
            const GSnap& g = b.groups.back();
            if (g.params.size() != 1 || g.params[0] != ci.givenParam) V(out, "C09", "lookup_differs/new_group", "new group does not hold exactly the given parameter");
        } else {
            if (b.groups.size() != a.groups.size()) { V(out, "C09", "group_count_changed", ""); return; }
            for (size_t i = 0; i < a.groups.size(); ++i) if ((int)i != gi && a.groups[i] != b.groups[i]) { V(out, "C09", "other_group_changed/existing_group", "group " + a.groups[i].name); return; }
            const GSnap& ga = a.groups[gi]; const GSnap& gb = b.groups[gi];
            if (ga.name != gb.name || ga.desc != gb.desc || ga.locked != gb.locked) V(out, "C09", "group_metadata_changed", "");
            int pi = ga.findIdx(ci.givenParam.name);
            size_t at;
            if (pi >= 0) { if (gb.params.size() != ga.params.size()) { V(out, "C09", "replace_changed_count", ""); return; } at = (size_t)pi; }
            else { if (gb.params.size() != ga.params.size() + 1) { V(out, "C09", "append_changed_count", ""); return; } at = ga.params.size(); }
            if (gb.params[at] != ci.givenParam) {
                std::string w = gb.params[at].name != ci.givenParam.name ? "name" : gb.params[at].type != ci.givenParam.type ? "type" : gb.params[at].dims != ci.givenParam.dims ? "dims" : gb.params[at].desc != ci.givenParam.desc ? "description" : gb.params[at].locked != ci.givenParam.locked ? "lock" : "values";
                V(out, "C09", std::string("lookup_differs/") + (pi >= 0 ? "replace/" : "append/") + w, "parameter at its position differs from the given one");
            }
            for (size_t i = 0; i < ga.params.size(); ++i) if ((int)i != pi && ga.params[i] != gb.params[i]) { V(out, "C09", "other_parameter_changed", "parameter " + ga.params[i].name); break; }
        }
        if (!a.sameFrames(b)) V(out, "C09", "frames_changed_by_parameter_edit", "");
    } else if (ci.kind == K_LOCK || ci.kind == K_UNLOCK) {
        OSnap want = a; int gi = want.groupIdx(ci.name);
        if (gi >= 0) want.groups[gi].locked = (ci.kind == K_LOCK);
        if (!want.sameContent(b)) V(out, "C09", std::string("lock_toggle_changed_more/") + (ci.kind == K_LOCK ? "lock" : "unlock"), "");
    }
}

// ================================================================================================
// C10 — a refused call leaves the object unchanged
// ================================================================================================
inline void tr_C10(const WSnap& pre, const CallInfo& ci, Outcome oc, const WSnap& post, const std::string& opcls, Sink& out) {
    if (oc == OK) return;
    if (ci.kind == K_RELOAD || ci.kind == K_SAVE || ci.kind == K_PRINT || ci.kind == K_LOAD_ROOT) return;
    if (ci.kind == K_REG_BUILD || ci.kind == K_REG_MUT || ci.kind == K_REG_EXT || ci.kind == K_EDIT_STORED) return;
    if (pre.key == post.key) return;
    std::string what = !(pre.o.h == post.o.h) ? "header" : !pre.o.sameParams(post.o) ? "parameters" : !pre.o.sameFrames(post.o) ? "frames" : !regsSame(pre, post) ? "caller_frames" : "aliasing";
    if (!pre.o.sameParams(post.o) && !pre.o.sameFrames(post.o)) what = "parameters+frames";
    else if (!(pre.o.h == post.o.h) && !pre.o.sameFrames(post.o)) what = "header+frames";
    V(out, "C10", "changed_on_throw/" + opcls + "/" + ci.dev + "/" + outcomeName(oc) + "/" + what, "object differs after a refused call");
}

} // namespace vf
