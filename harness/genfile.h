// genfile.h — INDEPENDENT spec-level C3D encoder + deviation-bounded enumeration of well-formed files.
// Includes no ezc3d header. A "case" = default content & layout + a set of (dimension=alternative) choices.
#pragma once
#include <cstdint>
#include <cstring>
#include <string>
#include <vector>
#include <map>
#include <functional>
#include <algorithm>

namespace gen {

static inline void p8(std::string& b, int v) { b.push_back((char)(v & 0xff)); }
static inline void p16(std::string& b, int v) { b.push_back((char)(v & 0xff)); b.push_back((char)((v >> 8) & 0xff)); }
static inline void p32(std::string& b, uint32_t v) { for (int i = 0; i < 4; ++i) b.push_back((char)((v >> (8 * i)) & 0xff)); }
static inline uint32_t f2b(float f) { uint32_t u; std::memcpy(&u, &f, 4); return u; }

struct GParam {
    std::string name; bool locked = false; int type = 2; std::vector<int> dims; std::string data; std::string desc;
    static GParam ints(const std::string& n, std::vector<int> dims, const std::vector<int>& v, bool lock = false, const std::string& d = "") { GParam p; p.name = n; p.type = 2; p.dims = dims; for (int x : v) p16(p.data, x); p.locked = lock; p.desc = d; return p; }
    static GParam bytes(const std::string& n, std::vector<int> dims, const std::vector<int>& v, const std::string& d = "") { GParam p; p.name = n; p.type = 1; p.dims = dims; for (int x : v) p8(p.data, x); p.desc = d; return p; }
    static GParam floats(const std::string& n, std::vector<int> dims, const std::vector<uint32_t>& v, bool lock = false, const std::string& d = "") { GParam p; p.name = n; p.type = 4; p.dims = dims; for (uint32_t x : v) p32(p.data, x); p.locked = lock; p.desc = d; return p; }
    // strings padded with spaces to width w
    static GParam strs(const std::string& n, int w, std::vector<int> outer, const std::vector<std::string>& v, const std::string& d = "") {
        GParam p; p.name = n; p.type = -1; p.dims.push_back(w); for (int o : outer) p.dims.push_back(o);
        for (auto s : v) { s.resize((size_t)w, ' '); p.data += s; } p.desc = d; return p;
    }
};
struct GGroup { std::string name; int id = 0; bool locked = false; std::string desc; std::vector<GParam> params; };

struct Content {
    int nPoints = 2, nChans = 2, spf = 2, nFrames = 2, first = 1; float pointRate = 100.f, analogRate = 200.f; uint32_t scaleBits = 0xBF800000u;
    int nEvents = 0; int labelsDelta = 0, alabelsDelta = 0;   // LABELS entries relative to points / channels in use
    std::string extra = "small";       // which EXTRA-group parameter menu
    std::string descs = "short";       // description variant
    bool locks = false; bool analogGroupEmpty = false; int valueSet = 0; int gapWord = 10;
    // hooks used by the C12 pattern files
    std::function<uint32_t(int, int, int)> ptFn, anFn; std::vector<GParam> customParams; std::vector<uint32_t> eventTimes; bool haveRateBits = false; uint32_t rateBits = 0; bool haveHeaderRateBits = false; uint32_t headerRateBits = 0;   // header words 11-12 when they are to differ from POINT:RATE
    int lastOverride = -1; bool blankLabel = false; bool reservedNonZero = false; bool longNames = false; int keyLabel = 0, firstKeyBlock = 0; bool noDataStart = false; int padBlocks = 0; int extraGroups = 0; std::string optParams = "std";   // std | minimal (no POINT:DESCRIPTIONS/UNITS, no ANALOG:UNITS/SCALE/OFFSET: what a float file can do without) | rich (ANALOG:DESCRIPTIONS too)
};
struct Layout {
    int zeros = 0; bool zeroPrologue = false; int paramBlock = 2; std::string order = "default"; std::string ids = "dense"; bool lastOffsetZero = false; bool lowerNames = false;
};

static const uint32_t SPECIAL_F[] = {0x80000000u, 0x00000001u, 0x7f800000u, 0xff800000u, 0x7fc00001u, 0xffc12345u, 0x7f800001u, 0x007fffffu, 0xbf800000u, 0x40600000u, 0x00000000u, 0x3f800000u};
inline uint32_t ptVal(int vs, int f, int p, int k) {
    if (vs == 1) return SPECIAL_F[(size_t)(f * 7 + p * 4 + k) % 12];
    if (k == 3) return f2b((p % 2) ? -1.0f : 0.25f * (float)(f + 1));
    return f2b((float)(f * 100 + p * 10 + k) + 0.5f);
}
inline uint32_t anVal(int vs, int f, int s, int c) { if (vs == 1) return SPECIAL_F[(size_t)(f * 5 + s * 3 + c + 2) % 12]; return f2b(-(float)(f * 1000 + s * 10 + c) - 0.125f); }
inline std::string ptLabel(int i) { const char* n[] = {"LASI", "RASI", "SACR", "HEAD", "TOE5", "PT6"}; return i < 6 ? n[i] : "P" + std::to_string(i); }
inline std::string chLabel(int i) { const char* n[] = {"FX1", "EMG2", "MZ3", "CH4"}; return i < 4 ? n[i] : "C" + std::to_string(i); }

inline std::vector<GGroup> buildGroups(const Content& c, const Layout& l) {
    auto D = [&](const std::string& s) { if (c.descs == "none") return std::string(); if (c.descs == "d64") return std::string(64, 'c'); if (c.descs == "d127") return std::string(127, 'd'); if (c.descs == "d128") return std::string(128, 'e'); if (c.descs == "d255") return std::string(255, 'f'); if (c.descs == "lower") return std::string("lower case Description"); return s; };
    std::vector<GGroup> G;
    GGroup P; P.name = "POINT"; P.desc = D("3-D point parameters"); P.locked = c.locks;
    P.params.push_back(GParam::ints("USED", {}, {c.nPoints}, true, D("points used")));
    P.params.push_back(GParam::floats("SCALE", {}, {0xBF800000u}, true));
    P.params.push_back(GParam::floats("RATE", {}, {c.haveRateBits ? c.rateBits : f2b(c.pointRate)}, true));
    if (!c.noDataStart) P.params.push_back(GParam::ints("DATA_START", {}, {0}, true));      // patched by encode(); some vendor files do not carry it
    if (c.extra == "dsprefix") P.params.push_back(GParam::ints("DATA_START_FRAME", {}, {705}));   // a look-alike name in the POINT group itself
    P.params.push_back(GParam::ints("FRAMES", {}, {c.nFrames}, true));
    if (!(c.optParams == "nolabels" && c.nPoints == 0))
    {   int n = std::min(255, std::max(0, c.nPoints + c.labelsDelta)); std::vector<std::string> v; for (int i = 0; i < n; ++i) v.push_back(ptLabel(i)); if (c.blankLabel && n > 0) v[(size_t)n - 1] = "    "; P.params.push_back(GParam::strs("LABELS", 4, {n}, v, D("labels")));
        int nd = std::min(c.nPoints, 255); std::vector<std::string> d; for (int i = 0; i < nd; ++i) d.push_back(i % 2 ? "" : "desc" + std::to_string(i)); if (c.optParams != "minimal") P.params.push_back(GParam::strs("DESCRIPTIONS", 8, {nd}, d)); }
    if (c.optParams != "minimal") P.params.push_back(GParam::strs("UNITS", 4, {}, {"mm"}));           // 1-D padded string
    G.push_back(P);
    GGroup A; A.name = "ANALOG"; A.desc = D("analog parameters");
    if (!c.analogGroupEmpty) {
        A.params.push_back(GParam::ints("USED", {}, {c.nChans}, true));
        if (!(c.optParams == "nolabels" && c.nChans == 0))
        {   int n = std::max(0, c.nChans + c.alabelsDelta); std::vector<std::string> v; for (int i = 0; i < n; ++i) v.push_back(chLabel(i)); A.params.push_back(GParam::strs("LABELS", 4, {n}, v)); }
        A.params.push_back(GParam::floats("GEN_SCALE", {}, {f2b(1.0f)}));
        if (c.optParams == "emptyscale") { A.params.push_back(GParam::floats("SCALE", {0}, {})); A.params.push_back(GParam::ints("OFFSET", {0}, {})); }   // present but without values (a float file never needs them)
        else if (c.optParams != "minimal") { { std::vector<uint32_t> v; for (int i = 0; i < c.nChans; ++i) v.push_back(f2b(1.0f + (float)i)); A.params.push_back(GParam::floats("SCALE", {c.nChans}, v)); }
            { std::vector<int> v; for (int i = 0; i < c.nChans; ++i) v.push_back(-i * 7); A.params.push_back(GParam::ints("OFFSET", {c.nChans}, v)); } }
        if (c.optParams != "minimal") { std::vector<std::string> v; for (int i = 0; i < c.nChans; ++i) v.push_back("V"); A.params.push_back(GParam::strs("UNITS", 4, {c.nChans}, v)); }
        if (c.optParams == "rich") { std::vector<std::string> v; for (int i = 0; i < c.nChans; ++i) v.push_back("chan " + std::to_string(i)); A.params.push_back(GParam::strs("DESCRIPTIONS", 7, {c.nChans}, v)); }
        A.params.push_back(GParam::floats("RATE", {}, {f2b(c.analogRate)}, true, D("analog rate")));
    }
    G.push_back(A);
    if (c.extra != "none") {
        GGroup E; E.name = "EXTRA"; E.desc = D("vendor group"); E.locked = c.locks;
        if (c.extra == "small" || c.extra == "all") {
            E.params.push_back(GParam::ints("I22", {2, 2}, {1, -2, 32767, -32768}, c.locks, D("2x2 ints")));
            E.params.push_back(GParam::floats("F23", {2, 3}, {0x80000000u, 1u, 0x7f800000u, 0x7fc00001u, f2b(-1.5f), f2b(1e30f)}));
            E.params.push_back(GParam::strs("S42", 4, {2}, {"ab", "wxyz"}, D("two strings")));
        }
        if (c.extra == "bytes" || c.extra == "all") { E.params.push_back(GParam::bytes("B1", {}, {200})); E.params.push_back(GParam::bytes("B3", {3}, {0, 127, 128}, D("bytes"))); E.params.push_back(GParam::bytes("B22", {2, 2}, {255, 1, 2, 254})); }
        if (c.extra == "dim3" || c.extra == "all") { E.params.push_back(GParam::ints("I212", {2, 1, 2}, {1, 2, 3, 4})); E.params.push_back(GParam::floats("F1111", {1, 1, 1, 1}, {f2b(9.5f)})); E.params.push_back(GParam::strs("S322", 3, {2, 2}, {"a", "bc", "def", ""})); E.params.push_back(GParam::ints("I7D", {1, 2, 1, 1, 2, 1, 1}, {5, 6, 7, 8})); }
        if (c.extra == "str1d" || c.extra == "all") { E.params.push_back(GParam::strs("S1D", 6, {}, {"ABC"}, D("padded 1-D string"))); E.params.push_back(GParam::strs("S1DF", 5, {}, {"hello"})); }
        if (c.extra == "empty" || c.extra == "all") { E.params.push_back(GParam::ints("IE", {0}, {})); E.params.push_back(GParam::floats("FE20", {2, 0}, {})); E.params.push_back(GParam::strs("SE", 0, {0}, {})); E.params.push_back(GParam::strs("SE41", 4, {0}, {})); E.params.push_back(GParam::strs("S01", 0, {1}, {""})); }
        if (c.extra == "ctrlws" || c.extra == "all") {   // text whose last characters are control white-space: only SPACES are padding
            E.params.push_back(GParam::strs("TABEND", 8, {2}, {"HEEL\t", "ok"})); E.params.push_back(GParam::strs("CRLF", 12, {}, {"first\r\n"})); E.params.push_back(GParam::strs("FF", 4, {1}, {"\f"}));
        }
        if (c.extra == "char0d") { GParam p; p.name = "C0D"; p.type = -1; p.data = "x"; E.params.push_back(p); }
        if (c.extra == "custom") for (auto& p : c.customParams) E.params.push_back(p);
        if (c.extra == "dsprefix") {   // names that EXTEND or SHORTEN a specially treated name, and mandatory-parameter names in a vendor group
            E.params.push_back(GParam::ints("DATA_START_FRAME", {}, {705})); E.params.push_back(GParam::floats("DATA_STAR", {}, {f2b(3.5f)})); E.params.push_back(GParam::ints("USED", {}, {77}));
            E.params.push_back(GParam::ints("FRAMES", {2}, {9, 8})); E.params.push_back(GParam::strs("LABELS", 3, {2}, {"xy", "z"})); E.params.push_back(GParam::floats("RATE", {}, {f2b(7.0f)}));
        }
        if (c.extra == "dsother") { E.params.push_back(GParam::ints("DATA_START", {}, {9})); E.params.push_back(GParam::floats("SCALE", {}, {f2b(0.5f)})); }   // the very name, in ANOTHER group
        if (c.extra == "big") { std::vector<uint32_t> v; for (int i = 0; i < 100 * 90; ++i) v.push_back(f2b((float)i * 0.5f)); E.params.push_back(GParam::floats("TABLE", {100, 90}, v, false, D("a record above 32767 bytes"))); E.params.push_back(GParam::ints("AFTER", {}, {7})); }
        if (c.extra == "bigint") { std::vector<int> v; for (int i = 0; i < 200 * 100; ++i) v.push_back((i * 7) % 65536 - 32768); E.params.push_back(GParam::ints("COUNTS", {200, 100}, v)); std::vector<int> b; for (int i = 0; i < 250 * 80; ++i) b.push_back(i % 256); E.params.push_back(GParam::bytes("BYTES", {250, 80}, b)); E.params.push_back(GParam::ints("AFTER", {}, {7})); }
        if (c.extra == "int0") { E.params.push_back(GParam::ints("ONE", {1}, {42})); E.params.push_back(GParam::floats("FONE", {1}, {f2b(4.25f)})); }
        G.push_back(E);
    }
    for (int k = 0; k < c.extraGroups; ++k) { GGroup X; X.name = "GRP" + std::to_string(k); X.desc = k % 3 ? "" : "group " + std::to_string(k); X.params.push_back(GParam::ints("N", {}, {k})); if (k % 2) X.params.push_back(GParam::strs("S", 3, {}, {"ab"})); G.push_back(X); }
    if (c.longNames && G.size() >= 3) { G[2].name = std::string(64, 'G'); for (size_t k = 0; k < G[2].params.size(); ++k) G[2].params[k].name = std::string(k % 2 ? 64 : 127, (char)('A' + (k % 26))) ; }
    // ids
    for (size_t i = 0; i < G.size(); ++i) G[i].id = (int)i + 1;
    if (l.ids == "sparse" && G.size() >= 3) G[2].id = 5;
    if (l.ids == "swapped") { G[0].id = 2; G[1].id = 1; }
    if (l.lowerNames) for (auto& g : G) { for (auto& p : g.params) if (g.name == "EXTRA") for (auto& ch : p.name) ch = (char)::tolower((unsigned char)ch); }
    return G;
}

inline std::string encode(const Content& c, const Layout& l) {
    std::vector<GGroup> G = buildGroups(c, l);
    struct R { bool isGroup; int gi, pi; };
    std::vector<R> recs;
    if (l.order == "default") for (size_t g = 0; g < G.size(); ++g) { recs.push_back({true, (int)g, -1}); for (size_t p = 0; p < G[g].params.size(); ++p) recs.push_back({false, (int)g, (int)p}); }
    else if (l.order == "groupsFirst") { for (size_t g = 0; g < G.size(); ++g) recs.push_back({true, (int)g, -1}); for (size_t g = 0; g < G.size(); ++g) for (size_t p = 0; p < G[g].params.size(); ++p) recs.push_back({false, (int)g, (int)p}); }
    else if (l.order == "paramsFirst") { for (size_t g = 0; g < G.size(); ++g) for (size_t p = 0; p < G[g].params.size(); ++p) recs.push_back({false, (int)g, (int)p}); for (size_t g = 0; g < G.size(); ++g) recs.push_back({true, (int)g, -1}); }
    else if (l.order == "groupsReversed") { for (size_t g = G.size(); g-- > 0;) { recs.push_back({true, (int)g, -1}); for (size_t p = 0; p < G[g].params.size(); ++p) recs.push_back({false, (int)g, (int)p}); } }
    else if (l.order == "interleaved") { size_t mx = 0; for (auto& g : G) mx = std::max(mx, g.params.size()); for (size_t p = 0; p < mx; ++p) for (size_t g = 0; g < G.size(); ++g) { if (p == 0) recs.push_back({true, (int)g, -1}); if (p < G[g].params.size()) recs.push_back({false, (int)g, (int)p}); } }
    std::string ps; p8(ps, l.zeroPrologue ? 0 : 1); p8(ps, l.zeroPrologue ? 0 : 0x50); p8(ps, 0); p8(ps, 84);
    size_t dataStartAt = 0;
    for (size_t i = 0; i < recs.size(); ++i) {
        const R& r = recs[i]; const GGroup& g = G[(size_t)r.gi]; bool last = i + 1 == recs.size();
        if (r.isGroup) {
            p8(ps, g.locked ? -(int)g.name.size() : (int)g.name.size()); p8(ps, -g.id); ps += g.name;
            p16(ps, (last && l.lastOffsetZero) ? 0 : (int)(2 + 1 + g.desc.size())); p8(ps, (int)g.desc.size()); ps += g.desc;
        } else {
            const GParam& p = g.params[(size_t)r.pi];
            p8(ps, p.locked ? -(int)p.name.size() : (int)p.name.size()); p8(ps, g.id); ps += p.name;
            p16(ps, (last && l.lastOffsetZero) ? 0 : (int)(2 + 1 + 1 + p.dims.size() + p.data.size() + 1 + p.desc.size()));
            p8(ps, p.type); p8(ps, (int)p.dims.size()); for (int d : p.dims) p8(ps, d);
            if (g.name == "POINT" && p.name == "DATA_START") dataStartAt = ps.size();
            ps += p.data; p8(ps, (int)p.desc.size()); ps += p.desc;
        }
    }
    p8(ps, 0);                                  // terminator: zero name length
    while (ps.size() % 512) p8(ps, 0);
    for (int k = 0; k < c.padBlocks; ++k) ps += std::string(512, '\0');   // spare zero block(s) that still belong to the parameter section
    int nBlocks = (int)(ps.size() / 512); ps[2] = (char)nBlocks;
    int dataBlock = l.paramBlock + nBlocks;     // 1-based
    if (dataStartAt) { ps[dataStartAt] = (char)(dataBlock & 0xff); ps[dataStartAt + 1] = (char)((dataBlock >> 8) & 0xff); }
    std::string h; p8(h, l.paramBlock); p8(h, 0x50); p16(h, c.nPoints); p16(h, c.nChans * c.spf); p16(h, c.first); p16(h, c.lastOverride >= 0 ? c.lastOverride : c.first + c.nFrames - 1); p16(h, c.gapWord);
    p32(h, c.scaleBits); p16(h, dataBlock); p16(h, c.spf); p32(h, c.haveHeaderRateBits ? c.headerRateBits : c.haveRateBits ? c.rateBits : f2b(c.pointRate));
    while (h.size() < 294) p8(h, c.reservedNonZero ? (int)(0x34 + h.size() * 7) : 0);   // reserved words 13..147
    p16(h, c.keyLabel); p16(h, c.firstKeyBlock); p16(h, 0x3039); p16(h, c.nEvents); p16(h, 0);
    for (int i = 0; i < 18; ++i) p32(h, (size_t)i < c.eventTimes.size() ? c.eventTimes[(size_t)i] : i < c.nEvents ? f2b(0.5f + (float)i * 1.25f) : 0);
    for (int i = 0; i < 18; ++i) p8(h, i < c.nEvents ? (i % 2) : 0);
    p16(h, 0);
    for (int i = 0; i < 18; ++i) { std::string lab = i < c.nEvents ? (i % 3 == 0 ? "RHS " : i % 3 == 1 ? "LTO1" : "E") : ""; lab.resize(4, i < c.nEvents && i % 3 == 0 ? ' ' : '\0'); h += lab; }
    while (h.size() < 512) p8(h, c.reservedNonZero ? (int)(0x91 + h.size() * 3) : 0);    // reserved words 235..256
    std::string out(std::string((size_t)l.zeros, '\0'));
    out += h;
    for (int b = 2; b < l.paramBlock; ++b) out += std::string(512, (char)0xEE);   // junk block(s) between header and parameters
    out += ps;
    for (int f = 0; f < c.nFrames; ++f) {
        for (int p = 0; p < c.nPoints; ++p) for (int k = 0; k < 4; ++k) p32(out, c.ptFn ? c.ptFn(f, p, k) : ptVal(c.valueSet, f, p, k));
        for (int s = 0; s < c.spf; ++s) for (int ch = 0; ch < c.nChans; ++ch) p32(out, c.anFn ? c.anFn(f, s, ch) : anVal(c.valueSet, f, s, ch));
    }
    return out;
}

// ---- dimensions of variation ------------------------------------------------------------------------
struct Dim { std::string name; std::vector<std::string> alts; };   // alts[0] = default
inline std::vector<Dim> dims(bool thorough) {
    std::vector<Dim> d;
    d.push_back({"points", thorough ? std::vector<std::string>{"2", "0", "1", "3", "255"} : std::vector<std::string>{"2", "0", "1", "3"}});
    d.push_back({"chans", {"2", "0", "1", "3"}});
    d.push_back({"spf", {"2", "1", "3", "15"}});
    d.push_back({"frames", {"2", "0", "1", "3"}});
    d.push_back({"first", {"1", "5", "705"}});
    d.push_back({"events", {"0", "2", "18"}});
    d.push_back({"rates", {"100x2", "50x2", "29.97x2", "23.976x2", "0x1", "120000x2"}});   // 120000x2: an analog rate above 2^31/10^4 Hz
    d.push_back({"values", {"plain", "special"}});
    d.push_back({"extra", {"small", "none", "bytes", "dim3", "str1d", "empty", "int0", "all", "char0d", "ctrlws", "dsprefix", "dsother", "big", "bigint"}});
    d.push_back({"descs", {"short", "none", "lower", "d64", "d127", "d128", "d255"}});
    d.push_back({"names", {"std", "long"}});
    d.push_back({"hdrwords", {"std", "odd"}});
    d.push_back({"locks", {"no", "yes"}});
    d.push_back({"labels", {"equal", "fewer", "more", "blank"}});
    d.push_back({"alabels", {"equal", "fewer", "more"}});
    d.push_back({"zeros", {"0", "1", "7", "512", "511", "1023"}});   // 511 / 1023: the header key byte is the first byte of a 512-byte block of the FILE
    d.push_back({"prologue", {"0150", "0000"}});
    d.push_back({"pblock", {"2", "3"}});
    d.push_back({"order", {"default", "groupsFirst", "paramsFirst", "groupsReversed", "interleaved"}});
    d.push_back({"ids", {"dense", "sparse", "swapped"}});
    d.push_back({"lastoff", {"ptr", "zero"}});
    d.push_back({"agroup", {"full", "empty"}});
    d.push_back({"reserved", {"zero", "nonzero"}});
    d.push_back({"datastart", {"present", "absent"}});
    d.push_back({"padblocks", {"0", "1", "3"}});
    d.push_back({"optparams", {"std", "minimal", "rich", "nolabels", "emptyscale"}});   // nolabels: a file without points (channels) need not carry POINT:LABELS (ANALOG:LABELS)
    return d;
}
using Choice = std::map<std::string, std::string>;
inline bool apply(const Choice& ch, Content& c, Layout& l) {   // returns false for combinations that are not well-formed
    auto get = [&](const char* k, const char* dflt) { auto it = ch.find(k); return it == ch.end() ? std::string(dflt) : it->second; };
    c.nPoints = atoi(get("points", "2").c_str()); c.nChans = atoi(get("chans", "2").c_str()); c.spf = atoi(get("spf", "2").c_str()); c.nFrames = atoi(get("frames", "2").c_str());
    c.first = atoi(get("first", "1").c_str()); c.nEvents = atoi(get("events", "0").c_str());
    std::string r = get("rates", "100x2"); float pr = (float)atof(r.substr(0, r.find('x')).c_str()); /* ("0x1" as a whole would parse as the hexadecimal 1.0) */ c.pointRate = pr; c.analogRate = pr * (float)c.spf; if (pr == 0.0f) { c.analogRate = 100.f; c.spf = 1; if (ch.count("spf") && ch.at("spf") != "1") return false; }
    c.valueSet = get("values", "plain") == "special" ? 1 : 0; c.extra = get("extra", "small"); c.descs = get("descs", "short"); c.locks = get("locks", "no") == "yes";
    std::string lb = get("labels", "equal"); c.labelsDelta = lb == "fewer" ? -1 : lb == "more" ? 1 : 0; if (lb == "fewer" && c.nPoints == 0) return false; c.blankLabel = lb == "blank"; if (c.blankLabel && c.nPoints == 0) return false;
    std::string al = get("alabels", "equal"); c.alabelsDelta = al == "fewer" ? -1 : al == "more" ? 1 : 0; if (al == "fewer" && c.nChans == 0) return false;
    l.zeros = atoi(get("zeros", "0").c_str()); l.zeroPrologue = get("prologue", "0150") == "0000"; l.paramBlock = atoi(get("pblock", "2").c_str()); l.order = get("order", "default"); l.ids = get("ids", "dense");
    l.lastOffsetZero = get("lastoff", "ptr") == "zero";
    c.reservedNonZero = get("reserved", "zero") == "nonzero";
    c.noDataStart = get("datastart", "present") == "absent";
    c.padBlocks = atoi(get("padblocks", "0").c_str()); c.optParams = get("optparams", "std"); if (c.optParams == "nolabels" && c.nPoints != 0 && c.nChans != 0) return false; if (c.optParams == "nolabels" && (ch.count("labels") || ch.count("alabels"))) return false;
    c.longNames = get("names", "std") == "long"; if (c.longNames && c.extra == "none") return false;
    if (get("hdrwords", "std") == "odd") { c.gapWord = 65535; c.keyLabel = 12345; c.firstKeyBlock = 7; c.scaleBits = 0xBE800000u; }
    c.analogGroupEmpty = get("agroup", "full") == "empty"; if (c.analogGroupEmpty) { if (ch.count("chans") && ch.at("chans") != "0") return false; c.nChans = 0; if (ch.count("alabels")) return false; }
    if (c.nChans == 0) { c.spf = ch.count("spf") ? c.spf : 2; }
    if (l.ids == "sparse" && c.extra == "none") return false;
    if (c.nPoints == 255 && c.labelsDelta > 0) return false;
    return true;
}
inline std::string choiceText(const Choice& ch) { std::string s; for (auto& kv : ch) { if (!s.empty()) s += ";"; s += kv.first + "=" + kv.second; } return s.empty() ? "default" : s; }
inline Choice parseChoice(const std::string& s) { Choice c; if (s == "default") return c; size_t a = 0; while (a < s.size()) { size_t b = s.find(';', a); std::string t = s.substr(a, b == std::string::npos ? std::string::npos : b - a); size_t e = t.find('='); if (e != std::string::npos) c[t.substr(0, e)] = t.substr(e + 1); if (b == std::string::npos) break; a = b + 1; } return c; }

// all choices with at most k non-default dimensions, simplest first
inline void enumerate(const std::vector<Dim>& D, int k, std::vector<Choice>& out) {
    out.push_back(Choice());
    std::function<void(size_t, int, Choice&)> rec = [&](size_t from, int left, Choice& cur) {
        if (left == 0) return;
        for (size_t i = from; i < D.size(); ++i) for (size_t a = 1; a < D[i].alts.size(); ++a) { cur[D[i].name] = D[i].alts[a]; out.push_back(cur); rec(i + 1, left - 1, cur); cur.erase(D[i].name); }
    };
    // breadth order: by number of deviations
    std::vector<Choice> all; Choice cur; std::function<void(size_t, int)> rec2;
    for (int n = 1; n <= k; ++n) {
        std::function<void(size_t, int, Choice&)> r = [&](size_t from, int left, Choice& c2) {
            if (left == 0) { out.push_back(c2); return; }
            for (size_t i = from; i < D.size(); ++i) for (size_t a = 1; a < D[i].alts.size(); ++a) { c2[D[i].name] = D[i].alts[a]; r(i + 1, left - 1, c2); c2.erase(D[i].name); }
        };
        Choice c2; r(0, n, c2);
    }
}

} // namespace gen
