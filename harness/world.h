// world.h — World (real c3d object + caller-side frame registers), call outcomes, frame builders.
#pragma once
#include "snap.h"
#include <memory>
#include <cstdio>
#include <functional>
#include <unistd.h>
#include <sys/stat.h>

namespace vf {

using C3D = ezc3d::c3d;
using Frame = ezc3d::DataNS::Frame;
using Point = ezc3d::DataNS::Points3dNS::Point;
using Points = ezc3d::DataNS::Points3dNS::Points;
using Channel = ezc3d::DataNS::AnalogsNS::Channel;
using SubFrame = ezc3d::DataNS::AnalogsNS::SubFrame;
using Analogs = ezc3d::DataNS::AnalogsNS::Analogs;
using Param = ezc3d::ParametersNS::GroupNS::Parameter;
using Group = ezc3d::ParametersNS::GroupNS::Group;

enum Outcome { OK = 0, INVALID_ARGUMENT, OUT_OF_RANGE, LENGTH_ERROR, LOGIC_ERROR, RANGE_ERROR, IOS_FAILURE, RUNTIME_ERROR, BAD_ALLOC, STD_EXCEPTION, UNKNOWN_EXCEPTION, N_OUTCOMES };
static const char* outcomeName(int o) {
    static const char* n[] = {"ok", "invalid_argument", "out_of_range", "length_error", "logic_error", "range_error", "ios_failure", "runtime_error", "bad_alloc", "std_exception", "unknown_exception"};
    return (o >= 0 && o < N_OUTCOMES) ? n[o] : "?";
}
template <class F> Outcome guarded(F&& f, std::string* what = nullptr) {
    try { f(); return OK; }
    catch (const std::invalid_argument& e) { if (what) *what = e.what(); return INVALID_ARGUMENT; }
    catch (const std::out_of_range& e) { if (what) *what = e.what(); return OUT_OF_RANGE; }
    catch (const std::length_error& e) { if (what) *what = e.what(); return LENGTH_ERROR; }
    catch (const std::logic_error& e) { if (what) *what = e.what(); return LOGIC_ERROR; }
    catch (const std::range_error& e) { if (what) *what = e.what(); return RANGE_ERROR; }
    catch (const std::ios_base::failure& e) { if (what) *what = e.what(); return IOS_FAILURE; }
    catch (const std::runtime_error& e) { if (what) *what = e.what(); return RUNTIME_ERROR; }
    catch (const std::bad_alloc& e) { if (what) *what = e.what(); return BAD_ALLOC; }
    catch (const std::exception& e) { if (what) *what = e.what(); return STD_EXCEPTION; }
    catch (...) { if (what) *what = "?"; return UNKNOWN_EXCEPTION; }
}

// What a destination holds BEFORE a save is an input of the save. The harness decides it everywhere: a fresh (absent) destination, or, where the
// property is about the bytes of the saved file (C03, C04, C14), an existing file that is longer than what will be written.
inline void freshDestination(const std::string& p) { ::unlink(p.c_str()); }
inline void longerDestination(const std::string& p, size_t atLeast, char fill) { FILE* f = fopen(p.c_str(), "wb"); if (!f) return; std::string junk(atLeast + 1031, fill); fwrite(junk.data(), 1, junk.size(), f); fclose(f); }

struct World {
    std::unique_ptr<C3D> c;
    Frame R[2]; bool Rset[2] = {false, false};
    std::string dir;           // scratch directory (tmpfs)
    bool loadedRoot = false;   // the object came from a generated file (root op), not from the API
    Points* heldPts[2] = {nullptr, nullptr};   // a write reference the caller took from its own frame BEFORE handing it over
    World(const std::string& d) : c(new C3D()), dir(d) {}
    std::string path(const char* leaf) const { return dir + "/" + leaf; }
};

struct WSnap {
    OSnap o; FrSnap reg[2]; bool regset[2] = {false, false};
    std::vector<int> alias;    // canonical aliasing partition of all Points/Analogs holders (stored frames, then registers)
    bool loadedRoot = false;
    std::string text; Key key;
};
inline WSnap snapWorld(const World& w) {
    WSnap s; s.o = snapObject(*w.c); s.loadedRoot = w.loadedRoot;
    for (int r = 0; r < 2; ++r) { s.regset[r] = w.Rset[r]; if (w.Rset[r]) s.reg[r] = snapFrame(w.R[r]); }
    std::vector<const void*> ptrs;
    for (auto& f : s.o.frames) { ptrs.push_back(f.paddr); ptrs.push_back(f.aaddr); }
    for (int r = 0; r < 2; ++r) if (w.Rset[r]) { ptrs.push_back(s.reg[r].paddr); ptrs.push_back(s.reg[r].aaddr); }
    for (size_t i = 0; i < ptrs.size(); ++i) { int cls = (int)i; for (size_t j = 0; j < i; ++j) if (ptrs[j] == ptrs[i]) { cls = (int)j; break; } s.alias.push_back(cls); }
    dumpObject(s.text, s.o);
    for (int r = 0; r < 2; ++r) { s.text += "R"; s.text += char('0' + r); s.text += s.regset[r] ? " " : " -\n"; if (s.regset[r]) dumpFrame(s.text, s.reg[r]); }
    if (s.loadedRoot) s.text += "root=file\n";
    for (int r = 0; r < 2; ++r) if (w.heldPts[r]) { s.text += "held"; s.text += char('0' + r); s.text += '\n'; }
    s.text += "alias=["; for (int a : s.alias) { s.text += std::to_string(a); s.text += ' '; } s.text += "]\n";
    s.key = hashStr(s.text);
    return s;
}
inline bool aliasDiscrete(const WSnap& s) { for (size_t i = 0; i < s.alias.size(); ++i) if (s.alias[i] != (int)i) return false; return true; }

// ---- values ---------------------------------------------------------------------------------
// value set ids: 0,1 plain (distinct), 2 special bit patterns
static const uint32_t SPECIALS[] = {0x80000000u, 0x00000001u, 0x7f800000u, 0xff800000u, 0x7fc00001u, 0xffc12345u, 0x7f800001u, 0x007fffffu, 0xbf800000u, 0x40600000u};
inline float val(int vs, size_t i, size_t k) {
    if (vs == 2) return bitsf(SPECIALS[(i * 4 + k) % (sizeof(SPECIALS) / sizeof(SPECIALS[0]))]);
    return (float)(1 + vs * 100) + (float)i * 4.0f + (float)k * 0.25f;
}
inline float resid(int vs, size_t i) { if (vs == 2) return (i % 2) ? -1.0f : 3.5f; return (vs == 1) ? 0.75f + (float)i : 0.0f + (float)i * 0.5f; }
inline float aval(int vs, size_t sf, size_t ch) {
    if (vs == 2) return bitsf(SPECIALS[(sf * 3 + ch + 5) % (sizeof(SPECIALS) / sizeof(SPECIALS[0]))]);
    return (float)(-7 - vs * 50) - (float)sf * 2.0f - (float)ch * 0.125f;
}

struct Shape { std::vector<std::string> pts, chans; size_t nsub = 0; bool raggedLast = false; };   // raggedLast: the last sub-frame carries one channel more than the others
inline Frame buildFrame(const Shape& sh, int vs) {
    Frame f;
    Points P;
    for (size_t i = 0; i < sh.pts.size(); ++i) {
        Point p; p.name(sh.pts[i]); p.x(val(vs, i, 0)); p.y(val(vs, i, 1)); p.z(val(vs, i, 2)); p.residual(resid(vs, i));
        P.point(p);
    }
    Analogs A;
    for (size_t s = 0; s < sh.nsub; ++s) {
        SubFrame sf;
        for (size_t k = 0; k < sh.chans.size(); ++k) { Channel ch; ch.name(sh.chans[k]); ch.data(aval(vs, s, k)); sf.channel(ch); }
        A.subframe(sf);
    }
    f.add(P, A);
    if (sh.raggedLast && sh.nsub) { Channel ch; ch.name("zz"); ch.data(aval(vs, sh.nsub - 1, sh.chans.size())); f.analogs_nonConst().subframe_nonConst(sh.nsub - 1).channel(ch); }   // widened in place, as a caller filling its frame through the write accessors would
    return f;
}
// What buildFrame() is MEANT to hold, computed from the value formulas only (no library object involved): the oracles compare
// stored frames with this, so a value lost while the caller assembles its own frame (e.g. by a lossy Point copy) is seen too.
inline FrSnap intendedFrame(const Shape& sh, int vs) {
    FrSnap s;
    for (size_t i = 0; i < sh.pts.size(); ++i) { PtSnap p; p.name = sh.pts[i]; while (!p.name.empty() && p.name.back() == ' ') p.name.pop_back(); p.v[0] = fbits(val(vs, i, 0)); p.v[1] = fbits(val(vs, i, 1)); p.v[2] = fbits(val(vs, i, 2)); p.v[3] = fbits(resid(vs, i)); s.pts.push_back(p); }
    for (size_t k = 0; k < sh.nsub; ++k) { std::vector<ChSnap> v; for (size_t c = 0; c < sh.chans.size(); ++c) { ChSnap q; q.name = sh.chans[c]; while (!q.name.empty() && q.name.back() == ' ') q.name.pop_back(); q.v = fbits(aval(vs, k, c)); v.push_back(q); } if (sh.raggedLast && k + 1 == sh.nsub) { ChSnap q; q.name = "zz"; q.v = fbits(aval(vs, k, sh.chans.size())); v.push_back(q); } s.subs.push_back(v); }
    return s;
}
// The shape a conforming frame must have for the object in its CURRENT state (public accessors only).
inline Shape declaredShape(const OSnap& o) {
    Shape sh;
    const FrSnap* filled = nullptr;
    for (auto& f : o.frames) if (!f.empty()) { filled = &f; break; }
    const GSnap* gp = o.group("POINT"); const GSnap* ga = o.group("ANALOG");
    const PSnap* pl = gp ? gp->find("LABELS") : nullptr; const PSnap* al = ga ? ga->find("LABELS") : nullptr;
    if (filled) {
        for (auto& p : filled->pts) sh.pts.push_back(p.name);
        if (!filled->subs.empty()) { for (auto& c : filled->subs[0]) sh.chans.push_back(c.name); sh.nsub = filled->subs.size(); }
        else sh.nsub = 0;
    } else {
        if (pl) sh.pts = pl->strs;
        if (al) sh.chans = al->strs;
        for (int k = 2; k < 20; ++k) { std::string nm = "LABELS" + std::to_string(k); bool any = false;   // C3D's convention for more than 255 names (LABELS2, LABELS3, …)
            if (gp && gp->find(nm.c_str())) { for (auto& x : gp->find(nm.c_str())->strs) sh.pts.push_back(x); any = true; } if (ga && ga->find(nm.c_str())) { for (auto& x : ga->find(nm.c_str())->strs) sh.chans.push_back(x); any = true; } if (!any) break; }
        sh.nsub = sh.chans.empty() ? 0 : (o.h.subPerFrame ? o.h.subPerFrame : 1);
    }
    return sh;
}
inline bool nothingDeclared(const OSnap& o) {
    const GSnap* gp = o.group("POINT"); const GSnap* ga = o.group("ANALOG");
    const PSnap* pl = gp ? gp->find("LABELS") : nullptr; const PSnap* al = ga ? ga->find("LABELS") : nullptr;
    return o.frames.empty() && (!pl || pl->strs.empty()) && (!al || al->strs.empty());
}
inline int pInt(const OSnap& o, const char* g, const char* p, int dflt = 0) {
    const GSnap* G = o.group(g); if (!G) return dflt; const PSnap* P = G->find(p); if (!P || P->ints.empty()) return dflt; return P->ints[0];
}
inline float pFloat(const OSnap& o, const char* g, const char* p, float dflt = 0) {
    const GSnap* G = o.group(g); if (!G) return dflt; const PSnap* P = G->find(p); if (!P || P->floats.empty()) return dflt; return bitsf(P->floats[0]);
}
inline std::vector<std::string> pStrs(const OSnap& o, const char* g, const char* p) {
    const GSnap* G = o.group(g); if (!G) return {}; const PSnap* P = G->find(p); if (!P) return {}; return P->strs;
}
inline bool uniformFrames(const OSnap& o) {   // every stored frame has the same shape (needed for a meaningful file)
    for (size_t i = 1; i < o.frames.size(); ++i) {
        if (o.frames[i].pts.size() != o.frames[0].pts.size() || o.frames[i].subs.size() != o.frames[0].subs.size()) return false;
        for (size_t s = 0; s < o.frames[i].subs.size(); ++s) if (o.frames[i].subs[s].size() != o.frames[0].subs[0].size()) return false;
    }
    if (!o.frames.empty()) for (size_t s = 0; s < o.frames[0].subs.size(); ++s) if (o.frames[0].subs[s].size() != o.frames[0].subs[0].size()) return false;
    return true;
}

} // namespace vf
