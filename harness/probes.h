// probes.h — per-state probes of engine A: C01 (save→load), C14 (save purity/repeatability), C11 (look-up sweep).
#pragma once
#include "oracles.h"
#include <fstream>
#include <iterator>
#include <valgrind/valgrind.h>

namespace vf {

inline bool readAll(const std::string& p, std::string& out) {
    std::ifstream f(p, std::ios::binary); if (!f) return false;
    out.assign(std::istreambuf_iterator<char>(f), std::istreambuf_iterator<char>()); return true;
}
inline std::string upper(std::string s) { for (auto& c : s) c = (char)::toupper((unsigned char)c); return s; }
inline std::string rtrim(std::string s) { while (!s.empty() && s.back() == ' ') s.pop_back(); return s; }

// every stored frame carries the declared shape (the statement's "complete frames")
inline bool completeFrames(const OSnap& o) {
    if (!uniformFrames(o)) return false;
    int used = pInt(o, "POINT", "USED"), aused = pInt(o, "ANALOG", "USED");
    for (auto& f : o.frames) {
        if (f.pts.size() != (size_t)used) return false;
        if (aused > 0) { if (f.subs.size() != o.h.subPerFrame || f.subs.empty()) return false; for (auto& s : f.subs) if (s.size() != (size_t)aused) return false; }
        else if (!f.subs.empty()) return false;
    }
    // "complete" also means: the sub-frames of every frame are the declared ANALOG:RATE / POINT:RATE ratio (1 when POINT:RATE is 0)
    if (aused > 0 && !o.frames.empty()) {
        float pr = pFloat(o, "POINT", "RATE"), ar = pFloat(o, "ANALOG", "RATE");
        double ratio = pr == 0.0f ? 1.0 : (double)ar / (double)pr;
        if (std::fabs(ratio - (double)o.h.subPerFrame) > 1e-3) return false;
    }
    // names bound by position on reload: the statement presupposes labels name the points in data order
    std::vector<std::string> labels = pStrs(o, "POINT", "LABELS"), alabels = pStrs(o, "ANALOG", "LABELS");
    for (auto& f : o.frames) {
        if (labels.size() != f.pts.size()) return false;
        if (!f.subs.empty() && alabels.size() != f.subs[0].size()) return false;
    }
    return true;
}
// Stored data that the parameters do not announce: uniform frames whose point / channel count differs from POINT:USED / ANALOG:USED, or filled frames of different shapes. In an alphabet whose frame and column
// calls all conform (g_conformingCallsOnly, set for 'build'), no caller can produce this: the object is probed although it is not "complete".
static bool g_conformingCallsOnly = false;
inline bool countMismatch(const OSnap& o) {
    if (o.frames.empty()) return false;
    if (!uniformFrames(o)) { for (auto& f : o.frames) if (f.empty()) return false; return true; }   // frames of different shapes although none is a gap frame
    int used = pInt(o, "POINT", "USED"), aused = pInt(o, "ANALOG", "USED"); const FrSnap& f = o.frames[0];
    if (f.pts.size() != (size_t)used) return true;
    if (!f.subs.empty() && !f.subs[0].empty() && f.subs[0].size() != (size_t)aused) return true;
    return false;
}
inline bool probeWorthy(const OSnap& o) { return completeFrames(o) || (g_conformingCallsOnly && countMismatch(o)); }
inline std::string featureTags(const OSnap& o) {
    size_t maxDesc = 0; bool char1d = false, char0d = false;
    for (auto& g : o.groups) { maxDesc = std::max(maxDesc, g.desc.size()); for (auto& p : g.params) { maxDesc = std::max(maxDesc, p.desc.size()); if (p.type == ezc3d::DATA_TYPE::CHAR && p.dims.size() == 1) char1d = true; if (p.type == ezc3d::DATA_TYPE::CHAR && p.dims.empty()) char0d = true; } }
    std::string t; if (maxDesc >= 128) t += "desc>=128,"; if (char1d) t += "char1d,"; if (char0d) t += "char0d,"; if (t.empty()) t = "-"; else t.pop_back();
    return t;
}

// Compare two objects on the projection C01 / C04 name. Returns the list of differing field classes.
inline void compareContent(const OSnap& a, const OSnap& b, std::vector<std::string>& diffs, bool checkHeader = true) {
    auto add = [&](const std::string& d) { if (std::find(diffs.begin(), diffs.end(), d) == diffs.end()) diffs.push_back(d); };
    if (checkHeader) {
        if (a.h.nPoints != b.h.nPoints) add("header.points");
        if (a.h.nAnalogMeas != b.h.nAnalogMeas) add("header.analog_samples");
        if (a.h.nAnalogs != b.h.nAnalogs) add("header.channels");
        if (a.h.subPerFrame != b.h.subPerFrame) add("header.subframes/saved=" + S(a.h.subPerFrame) + ",loaded=" + S(b.h.subPerFrame) + (a.h.nAnalogs == 0 ? "/no-channels" : "/channels"));
        if (a.h.first != b.h.first) add("header.first_frame");
        if (a.h.last != b.h.last) add("header.last_frame");
        if (a.h.nFrames != b.h.nFrames) add("header.frames");
        if (a.h.rate != b.h.rate) add("header.rate");
    }
    if (a.groups.size() != b.groups.size()) add("groups.count");
    for (size_t i = 0; i < a.groups.size() && i < b.groups.size(); ++i) {
        const GSnap& ga = a.groups[i]; const GSnap& gb = b.groups[i];
        if (upper(ga.name) != upper(gb.name)) add("group.name");
        if (ga.desc != gb.desc) add(ga.desc.size() >= 128 ? "group.description/len>=128" : "group.description");
        if (ga.locked != gb.locked) add("group.lock");
        if (ga.params.size() != gb.params.size()) add("group.param_count");
        for (size_t j = 0; j < ga.params.size() && j < gb.params.size(); ++j) {
            const PSnap& pa = ga.params[j]; const PSnap& pb = gb.params[j];
            std::string tn = pa.type == ezc3d::DATA_TYPE::CHAR ? "CHAR" : pa.type == ezc3d::DATA_TYPE::BYTE ? "BYTE" : pa.type == ezc3d::DATA_TYPE::INT ? "INT" : "FLOAT";
            if (upper(pa.name) != upper(pb.name)) add("param.name");
            if (pa.type != pb.type) add("param.type");
            if (pa.desc != pb.desc) add(pa.desc.size() >= 128 ? "param.description/len>=128" : "param.description");
            if (pa.locked != pb.locked) add("param.lock");
            bool isDataStart = upper(ga.name) == "POINT" && upper(pa.name) == "DATA_START";
            if (pa.dims != pb.dims) add("param." + tn + ".dims/" + S(pa.dims.size()) + "D");
            if (!isDataStart && pa.ints != pb.ints) add("param." + tn + ".values");
            if (pa.floats != pb.floats) add("param.FLOAT.values");
            if (pa.strs.size() != pb.strs.size()) add("param.CHAR.count/" + S(pa.dims.size()) + "D");
            else for (size_t k = 0; k < pa.strs.size(); ++k) if (rtrim(pa.strs[k]) != rtrim(pb.strs[k])) { add("param.CHAR.values/" + S(pa.dims.size()) + "D"); break; }
        }
    }
    if (a.frames.size() != b.frames.size()) add("frames.count");
    for (size_t i = 0; i < a.frames.size() && i < b.frames.size(); ++i) {
        const FrSnap& fa = a.frames[i]; const FrSnap& fb = b.frames[i];
        if (fa.pts.size() != fb.pts.size()) { add("frame.point_count"); continue; }
        for (size_t k = 0; k < fa.pts.size(); ++k) {
            if (fa.pts[k].name != fb.pts[k].name) add("point.name");
            if (fa.pts[k].v[0] != fb.pts[k].v[0] || fa.pts[k].v[1] != fb.pts[k].v[1] || fa.pts[k].v[2] != fb.pts[k].v[2]) add("point.xyz");
            if (fa.pts[k].v[3] != fb.pts[k].v[3]) add("point.residual");
        }
        // sub-frames that hold no channel carry no sample: (k empty sub-frames) == (no sub-frame)
        bool ea = true, eb = true; for (auto& x : fa.subs) if (!x.empty()) ea = false; for (auto& x : fb.subs) if (!x.empty()) eb = false;
        if (ea && eb) continue;
        if (fa.subs.size() != fb.subs.size()) { add("frame.subframe_count"); continue; }
        for (size_t s = 0; s < fa.subs.size(); ++s) {
            if (fa.subs[s].size() != fb.subs[s].size()) { add("frame.channel_count"); continue; }
            for (size_t k = 0; k < fa.subs[s].size(); ++k) { if (fa.subs[s][k].name != fb.subs[s][k].name) add("channel.name"); if (fa.subs[s][k].v != fb.subs[s][k].v) add("analog.sample"); }
        }
    }
}

struct ProbeStats { size_t probed = 0, skipped = 0; };

inline void probe_C01(World& w, const WSnap& s, Sink& out, ProbeStats& st) {
    if (!probeWorthy(s.o)) { st.skipped++; return; }
    st.probed++;
    std::string p = w.path("c01.c3d"); std::string what; freshDestination(p);
    Outcome oc = guarded([&] { w.c->write(p); }, &what);
    if (oc != OK) { V(out, "C01", std::string("roundtrip/save_throws/") + outcomeName(oc) + "/" + featureTags(s.o), what); return; }
    std::unique_ptr<C3D> L;
    oc = guarded([&] { L.reset(new C3D(p)); }, &what);
    if (oc != OK) { V(out, "C01", std::string("roundtrip/reload_throws/") + outcomeName(oc) + "/" + featureTags(s.o), what); return; }
    OSnap l = snapObject(*L); std::vector<std::string> diffs; compareContent(s.o, l, diffs);
    for (auto& d : diffs) V(out, "C01", "roundtrip/" + d, "saved object and reloaded object differ in " + d);
}

// C14: save does not change the object; two saves are byte-identical. The file digest is returned for the
// cross-process (heap perturbation) join done by run.py.
inline bool probe_C14(World& w, const WSnap& s, Sink& out, Key& digest, std::string* bytesOut = nullptr) {
    std::string p1 = w.path("c14a.c3d"), p2 = w.path("c14b.c3d"), what;
    unsigned vgBefore = RUNNING_ON_VALGRIND ? VALGRIND_COUNT_ERRORS : 0;
    freshDestination(p1);
    Outcome oc = guarded([&] { w.c->write(p1); }, &what);
    if (oc != OK) return false;   // not this property's business
    if (RUNNING_ON_VALGRIND && VALGRIND_COUNT_ERRORS != vgBefore) V(out, "C14", "undefined_bytes/memcheck", "memcheck reported " + S(VALGRIND_COUNT_ERRORS - vgBefore) + " error(s) (uninitialised bytes reaching write) during save");
    WSnap mid = snapWorld(w);
    if (mid.key != s.key) V(out, "C14", std::string("save_changed_object/") + (!(mid.o.h == s.o.h) ? "header" : !mid.o.sameParams(s.o) ? "parameters" : !mid.o.sameFrames(s.o) ? "frames" : "other"), "object differs after write()");
    { std::string first; readAll(p1, first); longerDestination(p2, first.size(), (char)0xA5); }   // the second save goes over an existing, longer file
    oc = guarded([&] { w.c->write(p2); }, &what);
    if (oc != OK) { V(out, "C14", "second_save_throws", what); return false; }
    std::string b1, b2; readAll(p1, b1); readAll(p2, b2);
    if (b2.size() > b1.size() && b2.compare(0, b1.size(), b1) == 0) V(out, "C14", "destination_leftover_kept", "saved over a longer file, the result keeps " + S(b2.size() - b1.size()) + " bytes of it: the bytes of the file are not determined by the object");
    else if (b1 != b2) {
        size_t off = 0; while (off < b1.size() && off < b2.size() && b1[off] == b2[off]) ++off;
        std::string region = off < 512 ? "header" : "body";
        V(out, "C14", "two_saves_differ/" + region, "first differing offset " + S(off) + " sizes " + S(b1.size()) + "/" + S(b2.size()));
    }
    WSnap end = snapWorld(w);
    if (end.key != s.key && mid.key == s.key) V(out, "C14", "second_save_changed_object", "");
    digest = hashStr(b1); if (bytesOut) *bytesOut = b1;
    return true;
}

// ================================================================================================
// C11 — look-ups: positional → element or out_of_range; by name → first exact match or invalid_argument
// ================================================================================================
struct C11Stats { size_t lookups = 0; };
inline std::vector<size_t> idxSet(size_t n) { std::vector<size_t> v; for (size_t i = 0; i < n; ++i) v.push_back(i); v.push_back(n); v.push_back(n + 1); v.push_back((size_t)1 << 32); v.push_back(SIZE_MAX); return v; }
inline std::string idxClass(size_t i, size_t n) { return i < n ? "in" : i == n ? "size" : i == n + 1 ? "size+1" : i == ((size_t)1 << 32) ? "2^32" : "2^64-1"; }
inline std::string flipCase(std::string s) { for (auto& c : s) { if (::islower((unsigned char)c)) { c = (char)::toupper((unsigned char)c); return s; } if (::isupper((unsigned char)c)) { c = (char)::tolower((unsigned char)c); return s; } } return s + "x"; }

template <class Get, class Eq>
inline void posSweep(const char* cont, size_t n, Get get, Eq eq, Sink& out, C11Stats& st) {
    for (size_t i : idxSet(n)) {
        st.lookups++; bool same = false; std::string what;
        Outcome oc = guarded([&] { same = eq(get(i), i); }, &what);
        if (i < n) {
            if (oc != OK) V(out, "C11", std::string("pos/") + cont + "/in->" + outcomeName(oc), "index " + S(i) + " of " + S(n));
            else if (!same) V(out, "C11", std::string("pos/") + cont + "/wrong_element", "index " + S(i) + " of " + S(n));
        } else if (oc != OUT_OF_RANGE) V(out, "C11", std::string("pos/") + cont + "/" + idxClass(i, n) + "->" + outcomeName(oc), "index " + S(i) + " of " + S(n) + " must throw out_of_range");
    }
}
// names: vector of element names in container order. getIdx(name)->size_t, getEl(name)->element; eq(element, idx)
template <class GetIdx, class GetEl, class Eq>
inline void nameSweep(const char* cont, const std::vector<std::string>& names, GetIdx getIdx, GetEl getEl, Eq eq, Sink& out, C11Stats& st) {
    std::vector<std::string> probe = names;
    if (!names.empty()) { probe.push_back(flipCase(names[0])); probe.push_back(names[0] + " "); probe.push_back(names.back() + "_"); }
    probe.push_back("ZZ_absent"); probe.push_back("");
    // every proper prefix and suffix of every present name (the text before / after each position): "exactly that name" must not match a part of a longer one
    for (auto& n : names) for (size_t k = 1; k < n.size() && k <= 12; ++k) { probe.push_back(n.substr(0, k)); probe.push_back(n.substr(n.size() - k)); }
    // every present name with ONE character replaced, at every position (a comparison that skips or folds a position answers for a neighbour)
    for (auto& n : names) for (size_t k = 0; k < n.size() && n.size() <= 24; ++k) { std::string v = n; v[k] = (v[k] == 'x') ? 'y' : 'x'; probe.push_back(v); }
    std::sort(probe.begin(), probe.end()); probe.erase(std::unique(probe.begin(), probe.end()), probe.end());
    for (auto& nm : probe) {
        long first = -1; for (size_t i = 0; i < names.size(); ++i) if (names[i] == nm) { first = (long)i; break; }
        st.lookups += 2; size_t gi = 0; bool same = false; std::string what;
        Outcome o1 = guarded([&] { gi = getIdx(nm); }, &what);
        Outcome o2 = guarded([&] { same = eq(getEl(nm), (size_t)(first < 0 ? 0 : first)); }, &what);
        std::string ncls = first >= 0 ? "present" : nm.empty() ? "empty" : (!names.empty() && nm == names[0] + " ") ? "padded" : (!names.empty() && nm == flipCase(names[0])) ? "case" : "absent";
        if (first >= 0) {
            if (o1 != OK || gi != (size_t)first) V(out, "C11", std::string("name/") + cont + "/idx/" + (o1 != OK ? outcomeName(o1) : "not_first"), "name '" + nm + "'");
            if (o2 != OK) V(out, "C11", std::string("name/") + cont + "/get/present->" + outcomeName(o2), "name '" + nm + "'");
            else if (!same) V(out, "C11", std::string("name/") + cont + "/get/differs_from_positional", "name '" + nm + "'");
        } else {
            if (o1 != INVALID_ARGUMENT) V(out, "C11", std::string("name/") + cont + "/idx/" + ncls + "->" + outcomeName(o1), "name '" + nm + "' must throw invalid_argument");
            if (o2 != INVALID_ARGUMENT) V(out, "C11", std::string("name/") + cont + "/get/" + ncls + "->" + outcomeName(o2), "name '" + nm + "' must throw invalid_argument");
        }
    }
}
inline bool ptEq(const Point& p, const PtSnap& s) { return p.name() == s.name && fbits(p.x()) == s.v[0] && fbits(p.y()) == s.v[1] && fbits(p.z()) == s.v[2] && fbits(p.residual()) == s.v[3]; }
inline bool chEq(const Channel& c, const ChSnap& s) { return c.name() == s.name && fbits(c.data()) == s.v; }

// every way of handing a name to a point / channel (a named string, a temporary, a literal; at construction or later) stores the trimmed name, under which it is then found
inline void namingForms_C11(Sink& out, C11Stats& st) {
    for (const char* raw : {"A", "A ", "Fx  ", "  ", "x y ", "T\t", ""}) {
        std::string want = raw; vf::trimSpaces(want); std::string lv = raw;
        std::vector<std::pair<std::string, std::string>> got;
        { Point p; p.name(lv); got.push_back({"point/lvalue", p.name()}); }
        { Point p; p.name(std::string(raw)); got.push_back({"point/temporary", p.name()}); }
        { Point p; p.name(std::string(raw) + ""); got.push_back({"point/concatenation", p.name()}); }
        { Point p(lv); got.push_back({"point/constructor", p.name()}); }
        { Channel ch; ch.name(lv); got.push_back({"channel/lvalue", ch.name()}); }
        { Channel ch; ch.name(std::string(raw)); got.push_back({"channel/temporary", ch.name()}); }
        { Channel ch; ch.name(std::string(raw) + ""); got.push_back({"channel/concatenation", ch.name()}); }
        { Channel ch(lv); got.push_back({"channel/constructor", ch.name()}); }
        for (auto& g : got) { st.lookups++; if (g.second != want) V(out, "C11", "stored_name_not_trimmed/" + g.first, "named \"" + std::string(raw) + "\", stored \"" + g.second + "\""); }
        // found under the trimmed name once inside a container
        { Points P; Point p; p.name(std::string(raw)); P.point(p); st.lookups++; Outcome oc = guarded([&] { (void)P.pointIdx(want); }); if (oc != OK) V(out, "C11", "trimmed_name_not_found/points/temporary", std::string("\"") + raw + "\""); }
        { SubFrame sf; Channel ch; ch.name(std::string(raw)); sf.channel(ch); st.lookups++; Outcome oc = guarded([&] { (void)sf.channelIdx(want); }); if (oc != OK) V(out, "C11", "trimmed_name_not_found/subframe/temporary", std::string("\"") + raw + "\""); }
    }
}
// a write reference taken BEFORE look-ups is still the element: a rename made through it after successful and failed searches by name is what later searches see
inline void heldReference_C11(Sink& out, C11Stats& st) {
    {   Points P; for (auto n : {"A", "B", "C"}) { Point p; p.name(n); P.point(p); }
        Point& kept = P.point_nonConst(1); Outcome a = guarded([&] { (void)P.pointIdx("B"); (void)P.point("A"); }); Outcome b = guarded([&] { (void)P.pointIdx("nope"); }); kept.name("Z"); st.lookups += 4;
        size_t iz = 99; Outcome c = guarded([&] { iz = P.pointIdx("Z"); }); Outcome d = guarded([&] { (void)P.pointIdx("B"); });
        if (a != OK || b != INVALID_ARGUMENT || c != OK || iz != 1 || d != INVALID_ARGUMENT) V(out, "C11", "rename_through_kept_reference_not_seen/points", std::string("after look-ups, Z ") + (c == OK ? "found at " + S(iz) : "not found") + ", B " + (d == OK ? "still found" : "gone")); }
    {   SubFrame sf; for (auto n : {"a", "b", "c"}) { Channel ch; ch.name(n); sf.channel(ch); }
        Channel& kept = sf.channel_nonConst(1); Outcome a = guarded([&] { (void)sf.channelIdx("b"); (void)sf.channel("a"); }); Outcome b = guarded([&] { (void)sf.channelIdx("nope"); }); kept.name("z"); st.lookups += 4;
        size_t iz = 99; Outcome c = guarded([&] { iz = sf.channelIdx("z"); }); Outcome d = guarded([&] { (void)sf.channelIdx("b"); });
        if (a != OK || b != INVALID_ARGUMENT || c != OK || iz != 1 || d != INVALID_ARGUMENT) V(out, "C11", "rename_through_kept_reference_not_seen/subframe", std::string("after look-ups, z ") + (c == OK ? "found at " + S(iz) : "not found") + ", b " + (d == OK ? "still found" : "gone")); }
    {   Group g("G"); for (auto n : {"P1", "P2", "P3"}) { Param p(n); p.set(1); g.parameter(p); }
        Param& kept = g.parameter_nonConst(1); Outcome a = guarded([&] { (void)g.parameterIdx("P2"); }); Outcome b = guarded([&] { (void)g.parameterIdx("nope"); }); kept.name("PZ"); st.lookups += 4;
        size_t iz = 99; Outcome c = guarded([&] { iz = g.parameterIdx("PZ"); }); Outcome d = guarded([&] { (void)g.parameterIdx("P2"); });
        if (a != OK || b != INVALID_ARGUMENT || c != OK || iz != 1 || d != INVALID_ARGUMENT) V(out, "C11", "rename_through_kept_reference_not_seen/group", std::string("after look-ups, PZ ") + (c == OK ? "found at " + S(iz) : "not found") + ", P2 " + (d == OK ? "still found" : "gone")); }
}
inline void sweep_C11(World& w, const WSnap& s, Sink& out, C11Stats& st) {
    const C3D& c = *w.c; const OSnap& o = s.o;
    if (o.frames.empty() && o.groups.size() <= 3) { namingForms_C11(out, st); heldReference_C11(out, st); }   // object-independent: once per exploration is enough, done in the few smallest states
    // frames
    posSweep("frame", o.frames.size(), [&](size_t i) -> const Frame& { return c.data().frame(i); },
             [&](const Frame& f, size_t i) { return snapFrame(f).sameContent(o.frames[i]); }, out, st);
    {   // non-const route on a copy of the data holder
        ezc3d::DataNS::Data D = c.data();
        posSweep("frame_nonConst", o.frames.size(), [&](size_t i) -> Frame& { return D.frame_nonConst(i); },
                 [&](Frame& f, size_t i) { return snapFrame(f).sameContent(o.frames[i]); }, out, st);
    }
    std::vector<size_t> fsel; for (size_t i = 0; i < o.frames.size(); ++i) if (i < 2 || i + 1 == o.frames.size()) fsel.push_back(i);
    for (size_t fi : fsel) {
        const Frame& f = c.data().frame(fi); const FrSnap& fs = o.frames[fi];
        const Points& P = f.points(); Points& Pn = f.points_nonConst();
        posSweep("point", fs.pts.size(), [&](size_t i) -> const Point& { return P.point(i); }, [&](const Point& p, size_t i) { return ptEq(p, fs.pts[i]); }, out, st);
        posSweep("point_nonConst", fs.pts.size(), [&](size_t i) -> Point& { return Pn.point_nonConst(i); }, [&](Point& p, size_t i) { return ptEq(p, fs.pts[i]); }, out, st);
        for (size_t i = 0; i < fs.pts.size(); ++i) {   // the vector accessors return the same four numbers as x(), y(), z(), residual()
            st.lookups += 2; std::vector<float> d = P.point(i).data(), dn = Pn.point_nonConst(i).data_nonConst();
            auto same4 = [&](const std::vector<float>& v) { return v.size() == 4 && fbits(v[0]) == fs.pts[i].v[0] && fbits(v[1]) == fs.pts[i].v[1] && fbits(v[2]) == fs.pts[i].v[2] && fbits(v[3]) == fs.pts[i].v[3]; };
            if (!same4(d)) V(out, "C11", "point.data()_differs_from_components", "frame " + S(fi) + " point " + S(i));
            if (!same4(dn)) V(out, "C11", "point.data_nonConst()_differs_from_components", "frame " + S(fi) + " point " + S(i));
        }
        std::vector<std::string> pn = ptNames(fs);
        nameSweep("point", pn, [&](const std::string& n) { return P.pointIdx(n); }, [&](const std::string& n) -> const Point& { return P.point(n); }, [&](const Point& p, size_t i) { return ptEq(p, fs.pts[i]); }, out, st);
        nameSweep("point_nonConst", pn, [&](const std::string& n) { return Pn.pointIdx(n); }, [&](const std::string& n) -> Point& { return Pn.point_nonConst(n); }, [&](Point& p, size_t i) { return ptEq(p, fs.pts[i]); }, out, st);
        const Analogs& A = f.analogs(); Analogs& An = f.analogs_nonConst();
        posSweep("subframe", fs.subs.size(), [&](size_t i) -> const SubFrame& { return A.subframe(i); },
                 [&](const SubFrame& sf, size_t i) { if (sf.nbChannels() != fs.subs[i].size()) return false; for (size_t k = 0; k < fs.subs[i].size(); ++k) if (!chEq(sf.channels()[k], fs.subs[i][k])) return false; return true; }, out, st);
        posSweep("subframe_nonConst", fs.subs.size(), [&](size_t i) -> SubFrame& { return An.subframe_nonConst(i); },
                 [&](SubFrame& sf, size_t i) { return sf.nbChannels() == fs.subs[i].size(); }, out, st);
        for (size_t si = 0; si < fs.subs.size() && si < 2; ++si) {
            const SubFrame& sf = A.subframe(si); SubFrame& sfn = An.subframe_nonConst(si); const std::vector<ChSnap>& cs = fs.subs[si];
            posSweep("channel", cs.size(), [&](size_t i) -> const Channel& { return sf.channel(i); }, [&](const Channel& ch, size_t i) { return chEq(ch, cs[i]); }, out, st);
            posSweep("channel_nonConst", cs.size(), [&](size_t i) -> Channel& { return sfn.channel_nonConst(i); }, [&](Channel& ch, size_t i) { return chEq(ch, cs[i]); }, out, st);
            std::vector<std::string> cn; for (auto& x : cs) cn.push_back(x.name);
            nameSweep("channel", cn, [&](const std::string& n) { return sf.channelIdx(n); }, [&](const std::string& n) -> const Channel& { return sf.channel(n); }, [&](const Channel& ch, size_t i) { return chEq(ch, cs[i]); }, out, st);
            nameSweep("channel_nonConst", cn, [&](const std::string& n) { return sfn.channelIdx(n); }, [&](const std::string& n) -> Channel& { return sfn.channel_nonConst(n); }, [&](Channel& ch, size_t i) { return chEq(ch, cs[i]); }, out, st);
        }
    }
    // groups and parameters
    const auto& PR = c.parameters(); ezc3d::ParametersNS::Parameters PRn = c.parameters();
    posSweep("group", o.groups.size(), [&](size_t i) -> const Group& { return PR.group(i); }, [&](const Group& g, size_t i) { return snapGroup(g) == o.groups[i]; }, out, st);
    posSweep("group_nonConst", o.groups.size(), [&](size_t i) -> Group& { return PRn.group_nonConst(i); }, [&](Group& g, size_t i) { return snapGroup(g) == o.groups[i]; }, out, st);
    std::vector<std::string> gn; for (auto& g : o.groups) gn.push_back(g.name);
    nameSweep("group", gn, [&](const std::string& n) { return PR.groupIdx(n); }, [&](const std::string& n) -> const Group& { return PR.group(n); }, [&](const Group& g, size_t i) { return snapGroup(g) == o.groups[i]; }, out, st);
    nameSweep("group_nonConst", gn, [&](const std::string& n) { return PRn.groupIdx(n); }, [&](const std::string& n) -> Group& { return PRn.group_nonConst(n); }, [&](Group& g, size_t i) { return snapGroup(g) == o.groups[i]; }, out, st);
    for (size_t gi = 0; gi < o.groups.size(); ++gi) {
        const Group& g = PR.group(gi); Group& gnc = PRn.group_nonConst(gi); const GSnap& gs = o.groups[gi];
        posSweep("parameter", gs.params.size(), [&](size_t i) -> const Param& { return g.parameter(i); }, [&](const Param& p, size_t i) { return snapParam(p) == gs.params[i]; }, out, st);
        posSweep("parameter_nonConst", gs.params.size(), [&](size_t i) -> Param& { return gnc.parameter_nonConst(i); }, [&](Param& p, size_t i) { return snapParam(p) == gs.params[i]; }, out, st);
        std::vector<std::string> pn; for (auto& p : gs.params) pn.push_back(p.name);
        nameSweep("parameter", pn, [&](const std::string& n) { return g.parameterIdx(n); }, [&](const std::string& n) -> const Param& { return g.parameter(n); }, [&](const Param& p, size_t i) { return snapParam(p) == gs.params[i]; }, out, st);
        nameSweep("parameter_nonConst", pn, [&](const std::string& n) { return gnc.parameterIdx(n); }, [&](const std::string& n) -> Param& { return gnc.parameter_nonConst(n); }, [&](Param& p, size_t i) { return snapParam(p) == gs.params[i]; }, out, st);
        for (size_t pi = 0; pi < gs.params.size(); ++pi) {   // typed getters
            const Param& p = g.parameter(pi); int t = gs.params[pi].type;
            struct { const char* nm; int type; std::function<void()> call; } gets[] = {
                {"byte", ezc3d::DATA_TYPE::BYTE, [&] { (void)p.valuesAsByte(); }}, {"int", ezc3d::DATA_TYPE::INT, [&] { (void)p.valuesAsInt(); }},
                {"float", ezc3d::DATA_TYPE::FLOAT, [&] { (void)p.valuesAsFloat(); }}, {"string", ezc3d::DATA_TYPE::CHAR, [&] { (void)p.valuesAsString(); }}};
            for (auto& gt : gets) {
                st.lookups++; Outcome oc = guarded(gt.call);
                if (gt.type == t && oc != OK) V(out, "C11", std::string("typed_getter/own_type->") + outcomeName(oc) + "/" + gt.nm, gs.name + ":" + gs.params[pi].name);
                if (gt.type != t && oc != INVALID_ARGUMENT) V(out, "C11", std::string("typed_getter/other_type->") + outcomeName(oc) + "/as_" + gt.nm + "/is_" + SI(t), gs.name + ":" + gs.params[pi].name);
            }
            {   // what the getters answer must survive a set() that is refused (a copy is used: the object is not touched)
                Param q = p; st.lookups += 3;
                Outcome r1 = guarded([&] { q.set(std::vector<int>() = {1, 2}, {3}); }), r2 = guarded([&] { q.set(std::vector<float>() = {1.f, 2.f}, {3}); }), r3 = guarded([&] { q.set(std::vector<std::string>() = {"a", "b"}, {3}); });
                if (r1 != OK && r2 != OK && r3 != OK && !(snapParam(q) == gs.params[pi])) V(out, "C11", "getters_changed_by_refused_set/is_" + SI(t), gs.name + ":" + gs.params[pi].name + " answers differently after three refused set() calls");
            }
        }
    }
    // duplicate names (first match wins): rename the LAST group / parameter of a copy to the name of the FIRST one
    if (o.groups.size() >= 2) {
        ezc3d::ParametersNS::Parameters D = c.parameters(); D.group_nonConst(o.groups.size() - 1).name(o.groups[0].name);
        std::vector<std::string> dn = gn; dn.back() = dn.front();
        std::vector<GSnap> want = o.groups; want.back().name = want.front().name;
        nameSweep("group/duplicate", dn, [&](const std::string& n) { return D.groupIdx(n); }, [&](const std::string& n) -> const Group& { return D.group(n); }, [&](const Group& g, size_t i) { return snapGroup(g) == want[i]; }, out, st);
    }
    for (size_t gi = 0; gi < o.groups.size() && gi < 2; ++gi) if (o.groups[gi].params.size() >= 2) {
        Group G = PR.group(gi); const GSnap& gs = o.groups[gi]; G.parameter_nonConst(gs.params.size() - 1).name(gs.params[0].name);
        std::vector<std::string> pn; for (auto& p : gs.params) pn.push_back(p.name); pn.back() = pn.front();
        std::vector<PSnap> want = gs.params; want.back().name = want.front().name;
        nameSweep("parameter/duplicate", pn, [&](const std::string& n) { return G.parameterIdx(n); }, [&](const std::string& n) -> const Param& { return G.parameter(n); }, [&](const Param& p, size_t i) { return snapParam(p) == want[i]; }, out, st);
    }
    // header events
    const ezc3d::Header& H = c.header();
    posSweep("eventsTime", o.h.evTimes.size(), [&](size_t i) { return H.eventsTime(i); }, [&](float f, size_t i) { return fbits(f) == o.h.evTimes[i]; }, out, st);
    posSweep("eventsDisplay", o.h.evDisp.size(), [&](size_t i) { return H.eventsDisplay(i); }, [&](size_t d, size_t i) { return d == o.h.evDisp[i]; }, out, st);
    posSweep("eventsLabel", o.h.evLabels.size(), [&](size_t i) -> const std::string& { return H.eventsLabel(i); }, [&](const std::string& l, size_t i) { return l == o.h.evLabels[i]; }, out, st);
}
// trailing-space clause: after a successful naming call the element is stored and found under the trimmed name
inline void tr_C11(const WSnap&, const CallInfo& ci, Outcome oc, const WSnap& post, World& w, Sink& out) {
    if (oc != OK || !(ci.kind == K_POINT_NAME || ci.kind == K_ANALOG_NAME)) return;
    std::string nm = ci.name; vf::trimSpaces(nm); bool padded = nm != ci.name;
    const char* grp = ci.kind == K_POINT_NAME ? "POINT" : "ANALOG";
    std::vector<std::string> labels = pStrs(post.o, grp, "LABELS");
    if (!has(labels, nm)) V(out, "C11", std::string("trimmed_name_not_in_labels/") + grp + (padded ? "/padded" : "/plain"), "'" + ci.name + "' not found as '" + nm + "' in " + grp + ":LABELS");
    for (size_t i = 0; i < post.o.frames.size(); ++i) {
        const Frame& f = w.c->data().frame(i); Outcome o2;
        if (ci.kind == K_POINT_NAME) o2 = guarded([&] { (void)f.points().point(nm); });
        else { if (f.analogs().nbSubframes() == 0) continue; o2 = guarded([&] { (void)f.analogs().subframe(0).channel(nm); }); }
        if (o2 != OK) { V(out, "C11", std::string("trimmed_name_not_found_in_frame/") + grp, "frame " + S(i)); break; }
    }
}

} // namespace vf
