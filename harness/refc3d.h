// refc3d.h — INDEPENDENT spec-level C3D decoder (little-endian, float format). Written from the C3D user
// guide (header record, parameter header, group/parameter record formats, DATA_START). It includes no ezc3d
// header and follows ONLY the file's own pointers:
//   byte 0 -> parameter block; record chain via next-offsets; header word 9 -> data block.
#pragma once
#include <cstdint>
#include <cstring>
#include <string>
#include <vector>

namespace ref {

struct Rec {
    bool isGroup = false; int id = 0;            // id = |group id|
    std::string name; bool locked = false; std::string desc;
    int type = 0;                                // -1 char, 1 byte, 2 int16, 4 float (parameters only)
    std::vector<int> dims; std::vector<uint8_t> data;
    size_t offset = 0;                           // file offset of the record (its name-length byte)
    size_t nextField = 0; int nextOffset = 0;    // position and value of the 16-bit next pointer
    size_t parsedEnd = 0;                        // offset just after the description (where the record really ends)
    size_t dataOffset = 0;                       // where the values start
    // typed views
    std::vector<int> ints() const {
        std::vector<int> v;
        if (type == 1) for (uint8_t b : data) v.push_back((int)(int8_t)b);
        if (type == 2) for (size_t i = 0; i + 1 < data.size(); i += 2) v.push_back((int)(int16_t)(data[i] | (data[i + 1] << 8)));
        return v;
    }
    std::vector<uint32_t> floats() const { std::vector<uint32_t> v; if (type == 4) for (size_t i = 0; i + 3 < data.size(); i += 4) v.push_back((uint32_t)data[i] | ((uint32_t)data[i + 1] << 8) | ((uint32_t)data[i + 2] << 16) | ((uint32_t)data[i + 3] << 24)); return v; }
    // strings: first dimension = characters per string; a 0-dimensional CHAR is a single character
    std::vector<std::string> strings(bool trim = true) const {
        std::vector<std::string> v; if (type != -1) return v;
        size_t len = dims.empty() ? 1 : (size_t)dims[0]; size_t cnt = 1; for (size_t i = 1; i < dims.size(); ++i) cnt *= (size_t)dims[i];
        if (dims.size() <= 1) cnt = 1;
        for (size_t k = 0; k < cnt; ++k) { std::string s; if (len > 0 && (k + 1) * len <= data.size()) s.assign((const char*)data.data() + k * len, len); if (trim) { while (!s.empty() && (s.back() == ' ')) s.pop_back(); } v.push_back(s); }
        return v;
    }
    size_t elemCount() const { if (dims.empty()) return 1; size_t c = 1; for (int d : dims) c *= (size_t)d; return c; }
};

struct File {
    size_t base = 0;                             // number of zero bytes before the header (vendor quirk)
    // header
    uint8_t paramBlock = 0, key = 0; uint16_t nPoints = 0, nAnalogMeas = 0, first = 0, last = 0, gap = 0; uint32_t scaleBits = 0;
    uint16_t dataStart = 0, spf = 0; uint32_t rateBits = 0; uint16_t keyLabel = 0, firstKeyBlock = 0, fourChar = 0, nEvents = 0;
    uint32_t evTimes[18]; uint8_t evDisp[18]; std::string evLabels[18];
    // parameter section
    size_t paramOffset = 0; uint8_t ps0 = 0, psKey = 0, nBlocks = 0, proc = 0;
    std::vector<Rec> recs; size_t termOffset = 0; bool termByZeroName = false, termByZeroOffset = false; bool chainExact = true; std::string chainNote;
    // data
    size_t dataOffset = 0; size_t frameFloats = 0; size_t nFrames = 0; std::vector<std::vector<uint32_t>> frames; bool dataComplete = true;
    size_t fileSize = 0;

    const Rec* group(int id) const { for (auto& r : recs) if (r.isGroup && r.id == id) return &r; return nullptr; }
    const Rec* groupByName(const std::string& n) const { for (auto& r : recs) if (r.isGroup && r.name == n) return &r; return nullptr; }
    const Rec* param(int gid, const std::string& n) const { for (auto& r : recs) if (!r.isGroup && r.id == gid && r.name == n) return &r; return nullptr; }
    const Rec* param(const std::string& g, const std::string& n) const { const Rec* G = groupByName(g); return G ? param(G->id, n) : nullptr; }
    size_t channels() const { return spf ? nAnalogMeas / spf : 0; }
};

static inline uint16_t rd16(const std::string& b, size_t o) { return (uint16_t)((uint8_t)b[o] | ((uint8_t)b[o + 1] << 8)); }
static inline uint32_t rd32(const std::string& b, size_t o) { return (uint32_t)(uint8_t)b[o] | ((uint32_t)(uint8_t)b[o + 1] << 8) | ((uint32_t)(uint8_t)b[o + 2] << 16) | ((uint32_t)(uint8_t)b[o + 3] << 24); }

// Returns "" on success, else a description of why the bytes are not a decodable C3D.
inline std::string decode(const std::string& b, File& F, bool allowLeadingZeros = true) {
    F = File(); F.fileSize = b.size();
    size_t base = 0; if (allowLeadingZeros) while (base < b.size() && b[base] == 0) ++base;
    F.base = base;
    if (b.size() < base + 512) return "file shorter than a header block";
    auto H = [&](size_t o) { return base + o; };
    F.paramBlock = (uint8_t)b[H(0)]; F.key = (uint8_t)b[H(1)];
    if (F.key != 0x50) return "header key byte is not 0x50";
    F.nPoints = rd16(b, H(2)); F.nAnalogMeas = rd16(b, H(4)); F.first = rd16(b, H(6)); F.last = rd16(b, H(8)); F.gap = rd16(b, H(10));
    F.scaleBits = rd32(b, H(12)); F.dataStart = rd16(b, H(16)); F.spf = rd16(b, H(18)); F.rateBits = rd32(b, H(20));
    F.keyLabel = rd16(b, H(294)); F.firstKeyBlock = rd16(b, H(296)); F.fourChar = rd16(b, H(298)); F.nEvents = rd16(b, H(300));
    for (int i = 0; i < 18; ++i) F.evTimes[i] = rd32(b, H(304 + 4 * (size_t)i));
    for (int i = 0; i < 18; ++i) F.evDisp[i] = (uint8_t)b[H(376 + (size_t)i)];
    for (int i = 0; i < 18; ++i) F.evLabels[i].assign(b.data() + H(396 + 4 * (size_t)i), 4);
    if (F.paramBlock == 0) return "parameter block address 0";
    F.paramOffset = base + 512 * (size_t)(F.paramBlock - 1);
    if (b.size() < F.paramOffset + 4) return "parameter section beyond end of file";
    F.ps0 = (uint8_t)b[F.paramOffset]; F.psKey = (uint8_t)b[F.paramOffset + 1]; F.nBlocks = (uint8_t)b[F.paramOffset + 2]; F.proc = (uint8_t)b[F.paramOffset + 3];
    // record chain
    size_t pos = F.paramOffset + 4; int guard = 0;
    while (true) {
        if (++guard > 100000) return "record chain does not terminate";
        if (pos + 1 > b.size()) return "record chain runs past end of file";
        int8_t nlen = (int8_t)b[pos];
        if (nlen == 0) { F.termOffset = pos; F.termByZeroName = true; break; }
        if (pos + 2 > b.size()) return "record chain runs past end of file";
        Rec r; r.offset = pos; r.locked = nlen < 0; size_t n = (size_t)(nlen < 0 ? -nlen : nlen);
        int8_t gid = (int8_t)b[pos + 1]; r.isGroup = gid < 0; r.id = gid < 0 ? -gid : gid;
        if (pos + 2 + n + 2 > b.size()) return "record name runs past end of file";
        r.name.assign(b.data() + pos + 2, n); r.nextField = pos + 2 + n; r.nextOffset = (int)rd16(b, r.nextField);
        size_t q = r.nextField + 2;
        if (!r.isGroup) {
            if (q + 2 > b.size()) return "parameter header runs past end of file";
            r.type = (int)(int8_t)b[q]; int nd = (int)(uint8_t)b[q + 1]; q += 2;
            if (!(r.type == -1 || r.type == 1 || r.type == 2 || r.type == 4)) return "unknown parameter type";
            if (nd > 7) return "more than 7 dimensions";
            if (q + (size_t)nd > b.size()) return "dimensions run past end of file";
            for (int i = 0; i < nd; ++i) r.dims.push_back((int)(uint8_t)b[q + (size_t)i]); q += (size_t)nd;
            size_t bytes = r.elemCount() * (size_t)(r.type < 0 ? 1 : r.type);
            if (q + bytes > b.size()) return "parameter data runs past end of file";
            r.dataOffset = q; r.data.assign((const uint8_t*)b.data() + q, (const uint8_t*)b.data() + q + bytes); q += bytes;
        }
        if (q + 1 > b.size()) return "description length past end of file";
        size_t dl = (size_t)(uint8_t)b[q]; q += 1;
        if (q + dl > b.size()) return "description runs past end of file";
        r.desc.assign(b.data() + q, dl); q += dl; r.parsedEnd = q;
        F.recs.push_back(r);
        if (r.nextOffset == 0) { F.termOffset = q; F.termByZeroOffset = true; break; }
        size_t nxt = r.nextField + (size_t)r.nextOffset;
        if (nxt != q) { F.chainExact = false; if (F.chainNote.empty()) F.chainNote = "record '" + r.name + "' next-offset " + std::to_string(r.nextOffset) + " but record ends after " + std::to_string(q - r.nextField) + " bytes"; }
        if (nxt <= pos) return "next-offset does not advance";
        pos = nxt;
    }
    // data
    F.frameFloats = 4 * (size_t)F.nPoints + (size_t)F.nAnalogMeas;
    F.nFrames = (F.last >= F.first) ? (size_t)(F.last - F.first + 1) : 0;
    if (F.dataStart == 0) { F.dataOffset = 0; F.dataComplete = (F.nFrames * F.frameFloats == 0); return ""; }
    F.dataOffset = base + 512 * (size_t)(F.dataStart - 1);
    size_t need = F.nFrames * F.frameFloats * 4;
    if (F.dataOffset + need > b.size()) { F.dataComplete = false; return ""; }
    if (F.nFrames * F.frameFloats <= (size_t)1 << 24) {
        F.frames.resize(F.nFrames);
        for (size_t f = 0; f < F.nFrames; ++f) { F.frames[f].resize(F.frameFloats); for (size_t k = 0; k < F.frameFloats; ++k) F.frames[f][k] = rd32(b, F.dataOffset + 4 * (f * F.frameFloats + k)); }
    }
    return "";
}

} // namespace ref
