// drv_damage.cpp — C16: every truncation / byte overwrite / structural-field corruption of small valid files is loaded
// by the real library in a forked child under an address-space cap and a watchdog. Oracle: the child ends through
// "object returned" or "std::exception caught" — no signal, no sanitizer report, no timeout, no allocation beyond the cap.
#include "probes.h"
#include "refc3d.h"
#include "genfile.h"
#include <sys/mman.h>
#include <sys/wait.h>
#include <sys/resource.h>
#include <execinfo.h>
#include <sys/time.h>
#include <cxxabi.h>
#include <signal.h>
#include <chrono>

using namespace vf;

static double nowS() { return std::chrono::duration<double>(std::chrono::steady_clock::now().time_since_epoch()).count(); }
static bool writeAll(const std::string& p, const std::string& b) { FILE* f = fopen(p.c_str(), "wb"); if (!f) return false; fwrite(b.data(), 1, b.size(), f); fclose(f); return true; }

struct Base { std::string name, choice, bytes; ref::File F; std::vector<std::pair<size_t, std::string>> structural; /* (offset, field kind) */ std::vector<std::string> kindOf; /* per byte */ };

static void classify(Base& b) {
    const ref::File& F = b.F; b.kindOf.assign(b.bytes.size(), "data");
    auto mark = [&](size_t off, size_t n, const std::string& k, bool structural) { for (size_t i = off; i < off + n && i < b.bytes.size(); ++i) { b.kindOf[i] = k; if (structural) b.structural.push_back({i, k}); } };
    size_t h = F.base;
    for (size_t i = 0; i < h; ++i) b.kindOf[i] = "leading_zeros";
    mark(h, 512, "header.reserved", false);
    mark(h + 0, 1, "header.param_block", true); mark(h + 1, 1, "header.key", true); mark(h + 2, 2, "header.points", true); mark(h + 4, 2, "header.analog_samples", true);
    mark(h + 6, 2, "header.first_frame", true); mark(h + 8, 2, "header.last_frame", true); mark(h + 10, 2, "header.gap", false); mark(h + 12, 4, "header.scale", true);
    mark(h + 16, 2, "header.data_start", true); mark(h + 18, 2, "header.subframes", true); mark(h + 20, 4, "header.rate", false);
    mark(h + 294, 6, "header.key_labels", false); mark(h + 300, 2, "header.event_count", true); mark(h + 304, 72, "header.event_times", false); mark(h + 376, 18, "header.event_flags", false); mark(h + 396, 72, "header.event_labels", false);
    for (size_t i = h + 512; i < F.paramOffset && i < b.bytes.size(); ++i) b.kindOf[i] = "junk_block";
    mark(F.paramOffset, 1, "params.first_byte", true); mark(F.paramOffset + 1, 1, "params.key", true); mark(F.paramOffset + 2, 1, "params.block_count", true); mark(F.paramOffset + 3, 1, "params.processor", true);
    for (auto& r : F.recs) {
        std::string who = r.isGroup ? "group" : (r.type == -1 ? "param.CHAR" : r.type == 1 ? "param.BYTE" : r.type == 2 ? "param.INT" : "param.FLOAT");
        mark(r.offset, 1, who + ".name_length", true); mark(r.offset + 1, 1, who + ".id", true); mark(r.offset + 2, r.name.size(), who + ".name", false); mark(r.nextField, 2, who + ".next_offset", true);
        size_t q = r.nextField + 2;
        if (!r.isGroup) { mark(q, 1, who + ".type", true); mark(q + 1, 1, who + ".dim_count", true); mark(q + 2, r.dims.size(), who + ".dim", true); mark(r.dataOffset, r.data.size(), who + ".data", false); q = r.dataOffset + r.data.size(); }
        mark(q, 1, who + ".description_length", true); mark(q + 1, r.desc.size(), who + ".description", false);
    }
    mark(F.termOffset, 1, "params.terminator", true);
    for (size_t i = F.termOffset + 1; i < F.dataOffset && i < b.bytes.size(); ++i) b.kindOf[i] = "params.padding";
}

struct Damage { int base; char kind; size_t a, b; int va, vb; };   // kind: 'T' truncate to a bytes; 'B' byte a := va; 'P' bytes a,b := va,vb
static std::string damageText(const Damage& d, const std::vector<Base>& bases) {
    const Base& B = bases[(size_t)d.base]; char buf[256];
    if (d.kind == 'T') snprintf(buf, sizeof buf, "%s:truncate=%zu", B.name.c_str(), d.a);
    else if (d.kind == 'B') snprintf(buf, sizeof buf, "%s:byte[%zu]=0x%02x", B.name.c_str(), d.a, d.va);
    else snprintf(buf, sizeof buf, "%s:byte[%zu]=0x%02x,byte[%zu]=0x%02x", B.name.c_str(), d.a, d.va, d.b, d.vb);
    return buf;
}
static std::string damageField(const Damage& d, const std::vector<Base>& bases) {
    const Base& B = bases[(size_t)d.base];
    auto k = [&](size_t off) { return off < B.kindOf.size() ? B.kindOf[off] : std::string("eof"); };
    if (d.kind == 'T') return "truncate@" + (d.a < B.kindOf.size() ? (k(d.a).compare(0, 6, "header") == 0 ? std::string("header") : k(d.a) == "data" ? std::string("data") : std::string("parameters")) : std::string("eof"));
    if (d.kind == 'B') return k(d.a);
    return k(d.a) + "+" + k(d.b);
}
static std::string applyDamage(const Damage& d, const std::vector<Base>& bases) {
    std::string b = bases[(size_t)d.base].bytes;
    if (d.kind == 'T') b.resize(d.a); else { b[d.a] = (char)d.va; if (d.kind == 'P') b[d.b] = (char)d.vb; }
    return b;
}

// ---- the loader child -----------------------------------------------------------------------------
static void crashHandler(int sig) {
    void* bt[48]; int n = backtrace(bt, 48); const char* m = sig == SIGALRM ? "VF-TIMEOUT\n" : "VF-SIGNAL\n"; (void)!write(2, m, strlen(m)); backtrace_symbols_fd(bt, n, 2); _exit(sig == SIGALRM ? 97 : 98);
}
// exit codes: 0 loaded, 10 std::exception, 11 bad_alloc/length_error, 12 non-std exception, 97 timeout, 98 fatal signal
static int loadChild(const std::string& path, size_t fileSize, double limitS, bool cap, size_t bigCap = 0) {
#ifndef VF_ASAN
    if (cap) { struct rlimit rl; size_t lim = bigCap ? bigCap : (size_t)256 * 1024 * 1024 + std::max<size_t>((size_t)64 << 20, 1000 * fileSize); rl.rlim_cur = rl.rlim_max = lim; setrlimit(RLIMIT_AS, &rl); }
    signal(SIGSEGV, crashHandler); signal(SIGBUS, crashHandler); signal(SIGFPE, crashHandler); signal(SIGABRT, crashHandler); signal(SIGILL, crashHandler);
#endif
    signal(SIGALRM, crashHandler);
    struct itimerval it; memset(&it, 0, sizeof it); it.it_value.tv_sec = (long)limitS; it.it_value.tv_usec = (long)((limitS - (double)(long)limitS) * 1e6); setitimer(ITIMER_REAL, &it, nullptr);
    try { C3D c(path); (void)c.header().nbFrames(); (void)c.data().nbFrames(); }
    catch (const std::bad_alloc&) { _exit(11); } catch (const std::length_error&) { _exit(11); } catch (const std::exception&) { _exit(10); } catch (...) { _exit(12); }
    _exit(0);
}

static std::string innermostEzc3d(const std::string& err) {
    // ASan report or backtrace_symbols_fd output
    size_t p = err.find(" in ezc3d::"); if (p != std::string::npos) { size_t e = err.find_first_of("( \n", p + 4); return err.substr(p + 4, e - (p + 4)); }
    p = err.find("(_ZN5ezc3d"); if (p == std::string::npos) p = err.find("(_ZNK5ezc3d");
    if (p != std::string::npos) { size_t e = err.find_first_of("+)", p + 1); std::string m = err.substr(p + 1, e - p - 1); int st = 0; char* d = abi::__cxa_demangle(m.c_str(), nullptr, nullptr, &st); std::string r = (st == 0 && d) ? d : m; free(d); size_t par = r.find('('); if (par != std::string::npos) r = r.substr(0, par); return r; }
    return "?";
}

struct FCrumb { volatile uint64_t idx, progress; volatile uint32_t done; };

int main(int argc, char** argv) {
    std::string tier = "quick", scratch, out, one, profile = "full"; int workers = 16; double deadlineS = 1e9, limitS = 0.4; bool listBases = false, primed = false;
    for (int i = 1; i < argc; ++i) { std::string a = argv[i]; auto nxt = [&]() { return std::string(argv[++i]); };
        if (a == "--tier") tier = nxt(); else if (a == "--scratch") scratch = nxt(); else if (a == "--out") out = nxt(); else if (a == "--workers") workers = atoi(nxt().c_str()); else if (a == "--deadline") deadlineS = atof(nxt().c_str());
        else if (a == "--case") one = nxt(); else if (a == "--limit") limitS = atof(nxt().c_str()); else if (a == "--list-bases") listBases = true; else if (a == "--profile") profile = nxt(); else if (a == "--primed") primed = true; else { fprintf(stderr, "unknown arg %s\n", a.c_str()); return 2; } }
    if (scratch.empty()) scratch = "/dev/shm/ezc3d-verif-dmg." + std::to_string(getpid()); mkdir(scratch.c_str(), 0755);
    bool thorough = tier == "thorough";
#ifdef VF_ASAN
    const char* flavour = "asan";
#else
    const char* flavour = "plain";
#endif
    // ---- base files
    std::vector<std::pair<std::string, std::string>> baseDefs = {{"blank", "points=0;chans=0;frames=0;extra=none"}, {"points", "chans=0;points=1;extra=none"}, {"full", "events=2"}, {"params", "extra=all;frames=1"}, {"zeros", "zeros=7;extra=none"}, {"lean", "optparams=emptyscale;extra=none;frames=1"}, {"zeros511", "zeros=511;extra=none;chans=0;points=1;frames=1"}};   // zeros511: the header starts on the last byte of a 512-byte block of the file   // lean: channels whose ANALOG:SCALE/OFFSET hold no value (a float file never needs them)
    std::vector<Base> bases;
    for (auto& bd : baseDefs) { Base b; b.name = bd.first; b.choice = bd.second; gen::Content c; gen::Layout l; gen::apply(gen::parseChoice(bd.second), c, l); b.bytes = gen::encode(c, l); std::string e = ref::decode(b.bytes, b.F, true); if (!e.empty()) { fprintf(stderr, "base %s undecodable: %s\n", b.name.c_str(), e.c_str()); return 3; } classify(b); bases.push_back(b); }
    if (listBases) { for (auto& b : bases) printf("%s %zu bytes, %zu structural bytes\n", b.name.c_str(), b.bytes.size(), b.structural.size()); return 0; }
    // ---- damage list
    std::vector<Damage> dm; const int BV[5] = {0, 1, 0x7F, 0x80, 0xFF};
    for (size_t bi = 0; bi < bases.size() && profile != "pairs"; ++bi) {
        const Base& B = bases[bi]; size_t n = B.bytes.size();
        for (size_t t = 0; t < n; ++t) dm.push_back({(int)bi, 'T', t, 0, 0, 0});
        size_t lim = std::min(n, B.F.dataOffset + 512);
        for (size_t o = 0; o < lim; ++o) for (int v : BV) if ((unsigned char)B.bytes[o] != v) dm.push_back({(int)bi, 'B', o, 0, v, 0});
        if (profile == "boundary") {   // structural bytes additionally take every power of two and its neighbours (length / count fields)
            const int LV[] = {2, 3, 4, 7, 8, 9, 15, 16, 17, 31, 32, 33, 63, 64, 65, 126, 129, 254};
            for (auto& sb : B.structural) for (int v : LV) if ((unsigned char)B.bytes[sb.first] != v) dm.push_back({(int)bi, 'B', sb.first, 0, v, 0});
        }
        if (profile != "boundary") for (auto& sb : B.structural) for (int v = 0; v < 256; ++v) { bool isBV = false; for (int x : BV) if (x == v) isBV = true; if (!isBV && (unsigned char)B.bytes[sb.first] != v) dm.push_back({(int)bi, 'B', sb.first, 0, v, 0}); }
    }
    size_t singles = dm.size();
    if (profile == "pairs") {   // EVERY pair of structural bytes of the small bases x {1, 0x7F, 0xFF}^2 (meant for the sanitizer build: two fields that are each harmless alone)
        std::vector<int> PV = thorough ? std::vector<int>{1, 0x7F, 0xFF} : std::vector<int>{1, 0x7F};
        for (size_t bi = 0; bi < bases.size(); ++bi) {
            const Base& B = bases[bi]; if (!(B.name == "points" || (thorough && (B.name == "lean" || B.name == "blank")))) continue;
            std::vector<size_t> st; for (auto& sb : B.structural) st.push_back(sb.first);
            for (size_t i = 0; i < st.size(); ++i) for (size_t j = i + 1; j < st.size(); ++j) for (int va : PV) for (int vb : PV) if ((unsigned char)B.bytes[st[i]] != va && (unsigned char)B.bytes[st[j]] != vb) dm.push_back({(int)bi, 'P', st[i], st[j], va, vb});
        }
    }
    else if (profile != "boundary") {   // pairs of structural bytes x boundary values (quick: the two smallest bases, thorough: all; a reduced structural set for the largest)
        for (size_t bi = 0; bi < bases.size(); ++bi) {
            const Base& B = bases[bi]; if (!thorough && !(B.name == "blank" || B.name == "points")) continue;
            std::vector<size_t> st; for (auto& sb : B.structural) st.push_back(sb.first);
            size_t stride = thorough ? (st.size() > 160 ? 3 : 1) : 4; std::vector<size_t> sel; for (size_t i = 0; i < st.size(); i += stride) sel.push_back(st[i]);
            for (size_t i = 0; i < sel.size(); ++i) for (size_t j = i + 1; j < sel.size(); ++j) for (int va : BV) for (int vb : BV) if ((unsigned char)B.bytes[sel[i]] != va && (unsigned char)B.bytes[sel[j]] != vb) dm.push_back({(int)bi, 'P', sel[i], sel[j], va, vb});
        }
    }
    if (!one.empty()) {
        for (auto& d : dm) if (damageText(d, bases) == one) {
            std::string p = scratch + "/one.c3d"; std::string b = applyDamage(d, bases); writeAll(p, b); printf("%s -> field %s, %zu bytes, file %s\n", one.c_str(), damageField(d, bases).c_str(), b.size(), p.c_str());
            pid_t c = fork(); if (c == 0) loadChild(p, b.size(), 10.0, true); int st = 0; waitpid(c, &st, 0);
            printf("child: %s %d\n", WIFEXITED(st) ? "exit" : "signal", WIFEXITED(st) ? WEXITSTATUS(st) : WTERMSIG(st)); return (WIFEXITED(st) && (WEXITSTATUS(st) == 0 || WEXITSTATUS(st) == 10)) ? 0 : 1;
        }
        printf("case not found\n"); return 2;
    }
    // --primed: the process every loader child is forked from has already loaded valid files (every base, and files with unlabeled points and channels
    // of several counts): whatever process-wide state a load leaves behind (caches, lazily built tables) is warm when the damaged file arrives
    size_t primerLoads = 0; std::string primerFailure;
    if (primed) {
        std::vector<std::string> pc; for (auto& bd : baseDefs) pc.push_back(bd.second);
        for (auto x : {"labels=fewer;alabels=fewer", "labels=fewer;alabels=fewer;points=1;chans=1", "points=3;chans=3;labels=fewer;alabels=fewer", "labels=more;alabels=more", "extra=all;events=18", "agroup=empty;chans=0", "default"}) pc.push_back(x);
        auto prime = [&]() { size_t n = 0; for (auto& ch : pc) { gen::Content c; gen::Layout l; if (!gen::apply(gen::parseChoice(ch), c, l)) continue; std::string pp = scratch + "/primer.c3d"; writeAll(pp, gen::encode(c, l)); try { C3D c3(pp); (void)c3.data().nbFrames(); ++n; } catch (...) { } } return n; };
        // first in a child of its own: a loader that cannot even take these VALID files one after the other is reported, not allowed to take the driver down
        std::string errp = scratch + "/primer.err"; fflush(stdout); pid_t c = fork();
        if (c == 0) { int efd = open(errp.c_str(), O_WRONLY | O_CREAT | O_TRUNC, 0644); dup2(efd, 2); close(efd); signal(SIGSEGV, crashHandler); signal(SIGBUS, crashHandler); signal(SIGABRT, crashHandler); signal(SIGFPE, crashHandler); signal(SIGALRM, crashHandler); alarm(60); size_t n = prime(); _exit(n == pc.size() ? 0 : 20); }
        int st = 0; waitpid(c, &st, 0);
        if (WIFEXITED(st) && WEXITSTATUS(st) == 0) primerLoads = prime();
        else { std::string err; readAll(errp, err); std::string kind = !WIFEXITED(st) ? "signal_" + std::to_string(WTERMSIG(st)) : WEXITSTATUS(st) == 20 ? "valid_file_refused" : WEXITSTATUS(st) == 97 ? "hang" : WEXITSTATUS(st) == 98 ? "fatal_signal" : (err.find("AddressSanitizer") != std::string::npos ? "sanitizer" : "exit_" + std::to_string(WEXITSTATUS(st)));
            if (kind == "sanitizer") { size_t p2 = err.find("AddressSanitizer: "); if (p2 != std::string::npos) { size_t e = err.find_first_of(" \n", p2 + 18); kind = "asan:" + err.substr(p2 + 18, e - p2 - 18); } }
            primerFailure = kind + "/" + innermostEzc3d(err) + "/valid-files-loaded-one-after-the-other"; }
    }
    double t0 = nowS(), deadline = t0 + deadlineS;
    FCrumb* crumbs = (FCrumb*)mmap(nullptr, sizeof(FCrumb) * (size_t)workers, PROT_READ | PROT_WRITE, MAP_SHARED | MAP_ANONYMOUS, -1, 0);
    std::vector<pid_t> pids((size_t)workers, 0);
    for (int wi = 0; wi < workers; ++wi) {
        fflush(stdout); pid_t p = fork();
        if (p == 0) {
            std::string base = scratch + "/w" + std::to_string(wi); FILE* fo = fopen((base + ".res").c_str(), "w"); std::string path = base + ".c3d", errp = base + ".err";
            for (uint64_t i = (uint64_t)wi; i < dm.size(); i += (uint64_t)workers) {
                if (nowS() > deadline) break;
                crumbs[wi].idx = i; crumbs[wi].progress++;
                std::string b = applyDamage(dm[i], bases); writeAll(path, b);
                int code = -1; std::string kind; std::string err;
                for (int attempt = 0; attempt < 2; ++attempt) {
                    double lim = attempt == 0 ? limitS : limitS * 10;
                    pid_t c = fork();
                    if (c == 0) { int efd = open(errp.c_str(), O_WRONLY | O_CREAT | O_TRUNC, 0644); dup2(efd, 2); close(efd); loadChild(path, b.size(), lim, true); }
                    int st = 0; double ts = nowS(); bool killed = false;
                    while (true) { pid_t r = waitpid(c, &st, WNOHANG); if (r == c) break; if (nowS() - ts > lim + 2) { kill(c, SIGKILL); waitpid(c, &st, 0); killed = true; break; } usleep(200); }
                    err.clear(); readAll(errp, err);
                    if (killed) { kind = "hang"; }
                    else if (WIFEXITED(st)) { code = WEXITSTATUS(st); kind = code == 0 ? "loaded" : code == 10 ? "refused" : code == 11 ? "alloc_beyond_cap" : code == 12 ? "non_std_exception" : code == 97 ? "hang" : code == 98 ? "fatal_signal" : (err.find("AddressSanitizer") != std::string::npos || err.find("runtime error") != std::string::npos) ? "sanitizer" : "exit_" + std::to_string(code); }
                    else kind = "signal_" + std::to_string(WTERMSIG(st));
                    if (kind != "hang") break;   // a timeout is re-run alone with a 10x limit before it counts
                }
#ifdef VF_ASAN
                if (kind == "alloc_beyond_cap") kind = "refused";   // no address-space cap under ASan: the exception was thrown by the library/libstdc++ itself (ASan's own limit would be an ASan report)
#else
                if (kind == "alloc_beyond_cap") {   // was it one absurd request (refused at once whatever the cap) or real memory growth? re-run under an 8 GiB cap
                    pid_t c = fork();
                    if (c == 0) { int efd = open(errp.c_str(), O_WRONLY | O_CREAT | O_TRUNC, 0644); dup2(efd, 2); close(efd); loadChild(path, b.size(), 10.0, true, (size_t)8 << 30); }
                    int st = 0; double ts = nowS(); bool killed = false;
                    while (true) { pid_t r = waitpid(c, &st, WNOHANG); if (r == c) break; if (nowS() - ts > 14) { kill(c, SIGKILL); waitpid(c, &st, 0); killed = true; break; } usleep(500); }
                    if (!killed && WIFEXITED(st) && WEXITSTATUS(st) == 11 && nowS() - ts < 1.0) kind = "refused";   // bad_alloc / length_error thrown immediately: a clean refusal
                    else kind = "memory_not_proportional";
                }
#endif
                std::string fn = (kind == "loaded" || kind == "refused") ? "" : innermostEzc3d(err);
                if (kind == "sanitizer") { size_t p2 = err.find("AddressSanitizer: "); if (p2 != std::string::npos) { size_t e = err.find_first_of(" \n", p2 + 18); kind = "asan:" + err.substr(p2 + 18, e - p2 - 18); } else if (err.find("runtime error:") != std::string::npos) kind = "ubsan"; }
                if (kind == "signal_6" && err.find("Assertion") != std::string::npos) kind = "libstdc++_assertion";
                fprintf(fo, "%llu\t%s\t%s\n", (unsigned long long)i, kind.c_str(), fn.c_str()); fflush(fo);
            }
            crumbs[wi].done = 1; fclose(fo); _exit(0);
        }
        pids[wi] = p;
    }
    for (int wi = 0; wi < workers; ++wi) { int st; waitpid(pids[wi], &st, 0); }
    std::map<std::string, uint64_t> outcomes; struct VR { std::string sig, cs; uint64_t count; }; std::map<std::string, VR> viol; uint64_t done = 0, doneSingles = 0;
    if (!primerFailure.empty()) viol[primerFailure] = {primerFailure, "the 12 valid primer files, loaded in sequence by one process", 1};
    for (int wi = 0; wi < workers; ++wi) {
        std::ifstream fr(scratch + "/w" + std::to_string(wi) + ".res"); std::string line;
        while (std::getline(fr, line)) {
            size_t a = line.find('\t'), b = line.find('\t', a + 1); if (a == std::string::npos || b == std::string::npos) continue;
            uint64_t i = strtoull(line.c_str(), nullptr, 10); std::string kind = line.substr(a + 1, b - a - 1), fn = line.substr(b + 1); outcomes[kind]++; done++; if (i < singles) doneSingles++;
            if (kind == "loaded" || kind == "refused") continue;
            std::string sig = kind + "/" + fn + "/" + damageField(dm[i], bases);
            auto it = viol.find(sig); if (it == viol.end()) viol[sig] = {sig, damageText(dm[i], bases), 1}; else { it->second.count++; if (i < singles && damageText(dm[i], bases).size() < it->second.cs.size()) it->second.cs = damageText(dm[i], bases); }
        }
    }
    auto jstr = [](const std::string& s) { std::string o = "\""; for (unsigned char ch : s) { if (ch == '"' || ch == '\\') { o += '\\'; o += (char)ch; } else if (ch < 32 || ch > 126) o += '?'; else o += (char)ch; } return o + "\""; };
    FILE* f = out.empty() ? stdout : fopen(out.c_str(), "w");
    fprintf(f, "{\n \"tier\": %s, \"profile\": \"%s\", \"primed_with_valid_loads\": %zu, \"flavour\": \"%s\", \"cases\": %zu, \"single_damage_cases\": %zu, \"pair_cases\": %zu, \"done\": %llu, \"wall_s\": %.1f, \"limit_s\": %.2f,\n \"bases\": {", jstr(tier).c_str(), profile.c_str(), primerLoads, flavour, dm.size(), singles, dm.size() - singles, (unsigned long long)done, nowS() - t0, limitS);
    for (size_t i = 0; i < bases.size(); ++i) fprintf(f, "%s%s: {\"choice\": %s, \"bytes\": %zu, \"structural_bytes\": %zu}", i ? ", " : "", jstr(bases[i].name).c_str(), jstr(bases[i].choice).c_str(), bases[i].bytes.size(), bases[i].structural.size());
    fprintf(f, "},\n \"outcomes\": {"); { bool first = true; for (auto& kv : outcomes) { fprintf(f, "%s%s: %llu", first ? "" : ", ", jstr(kv.first).c_str(), (unsigned long long)kv.second); first = false; } }
    fprintf(f, "},\n \"samples\": ["); for (size_t i = 0, n = 0; i < dm.size() && n < 8; i += std::max<size_t>(1, dm.size() / 7), ++n) fprintf(f, "%s%s", n ? ", " : "", jstr(damageText(dm[i], bases)).c_str());
    fprintf(f, "],\n \"violations\": [\n"); { bool first = true; for (auto& kv : viol) { fprintf(f, "%s  {\"sig\": %s, \"case\": %s, \"count\": %llu}", first ? "" : ",\n", jstr(kv.second.sig).c_str(), jstr(kv.second.cs).c_str(), (unsigned long long)kv.second.count); first = false; } }
    fprintf(f, "\n ]\n}\n"); if (f != stdout) fclose(f);
    return 0;
}
