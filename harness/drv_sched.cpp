// drv_sched.cpp — engine D (C18): preemption-bounded exhaustive schedule exploration of threads that use INDEPENDENT
// objects. A cooperative scheduler (one runnable thread, futex hand-off) owns every switch. Scheduling points:
//   fine   = every entry/exit of a library function (-finstrument-functions on /repo/src only) and every coarse point
//   coarse = harness op boundaries and every interposed libc I/O call (fopen64, fclose, read, write, lseek64)
// Explored exhaustively: 0 preemptions (all thread orders), 1 preemption at every fine point of every thread,
// 2 preemptions over all pairs of coarse points. Oracle: per-thread digest == digest of the body run alone.
// In the FREERUN build (tsan flavour) the same bodies run free behind a start barrier; ThreadSanitizer is the detector.
#define _GNU_SOURCE 1
#include "probes.h"
#include "genfile.h"
#include <atomic>
#include <thread>
#include <dlfcn.h>
#include <cxxabi.h>
#include <linux/futex.h>
#include <sys/syscall.h>
#include <sys/mman.h>
#include <sys/wait.h>
#include <chrono>

using namespace vf;
#define NOINST __attribute__((no_instrument_function))

static double nowS() { return std::chrono::duration<double>(std::chrono::steady_clock::now().time_since_epoch()).count(); }

// ---- scheduler ------------------------------------------------------------------------------------
static const int MAXT = 3;
static std::atomic<int> g_current{-1};
static thread_local int t_tid = -1;
struct TS { uint64_t fine = 0, coarse = 0; bool done = false; void* lastFn = nullptr; };
static TS g_ts[MAXT];
struct Preempt { int tid; bool coarse; uint64_t at; int to; };
static std::vector<Preempt> g_plan; static size_t g_planPos = 0; static bool g_active = false; static int g_nThreads = 0;
static void* g_preemptFn[4] = {nullptr, nullptr, nullptr, nullptr};

NOINST static void futexWait(int expect) { syscall(SYS_futex, (int*)&g_current, FUTEX_WAIT, expect, nullptr, nullptr, 0); }
NOINST static void futexWakeAll() { syscall(SYS_futex, (int*)&g_current, FUTEX_WAKE, 1 << 30, nullptr, nullptr, 0); }
NOINST static void waitTurn(int tid) { for (;;) { int c = g_current.load(std::memory_order_acquire); if (c == tid) return; futexWait(c); } }
NOINST static void switchTo(int to) { g_current.store(to, std::memory_order_release); futexWakeAll(); }
NOINST static void vfPoint(bool coarse, void* fn) {
#ifndef VF_FREERUN
    int tid = t_tid; if (tid < 0 || !g_active) return;
    if (g_ts[tid].done) return;   // allocations of the thread's own exit path are not scheduling points
    TS& ts = g_ts[tid]; ts.fine++; if (coarse) ts.coarse++; if (fn) ts.lastFn = fn;
    if (g_planPos < g_plan.size()) {
        const Preempt& p = g_plan[g_planPos];
        if (p.tid == tid && ((p.coarse && coarse && ts.coarse == p.at) || (!p.coarse && ts.fine == p.at))) {
            g_preemptFn[g_planPos < 4 ? g_planPos : 3] = ts.lastFn; g_planPos++;
            if (!g_ts[p.to].done) { switchTo(p.to); waitTurn(tid); }
        }
    }
#else
    (void)coarse; (void)fn;
#endif
}
NOINST static void threadDone(int tid) {
#ifndef VF_FREERUN
    g_ts[tid].done = true;
    for (int i = 0; i < g_nThreads; ++i) if (!g_ts[i].done) { switchTo(i); return; }
    switchTo(-2);
#else
    (void)tid;
#endif
}
extern "C" {
NOINST void __cyg_profile_func_enter(void* fn, void*) { vfPoint(false, fn); }
NOINST void __cyg_profile_func_exit(void* fn, void*) { vfPoint(false, fn); }
}
// ---- allocation points: every operator new / delete of a managed thread is a FINE scheduling point, which puts scheduling points
// INSIDE library functions (between two std calls that allocate), e.g. inside the formatting of a name through a stringstream.
#ifndef VF_FREERUN
NOINST void* operator new(size_t n) { vfPoint(false, nullptr); void* p = malloc(n ? n : 1); if (!p) throw std::bad_alloc(); return p; }
NOINST void* operator new[](size_t n) { vfPoint(false, nullptr); void* p = malloc(n ? n : 1); if (!p) throw std::bad_alloc(); return p; }
NOINST void operator delete(void* p) noexcept { vfPoint(false, nullptr); free(p); }
NOINST void operator delete[](void* p) noexcept { vfPoint(false, nullptr); free(p); }
NOINST void operator delete(void* p, size_t) noexcept { vfPoint(false, nullptr); free(p); }
NOINST void operator delete[](void* p, size_t) noexcept { vfPoint(false, nullptr); free(p); }
#endif
// ---- function-local statics: the C++ runtime's guard would BLOCK the second thread on a futex the scheduler knows nothing about (a thread preempted
// inside a static's initialiser + another one reaching the same static = a deadlock of the harness, not of the library). The guard is made cooperative:
// the waiting thread hands the processor to the initialising one (a forced switch, not a counted preemption) and re-checks when it runs again.
#ifndef VF_FREERUN
static uint64_t g_guardWaits = 0;
extern "C" {
NOINST int __cxa_guard_acquire(uint64_t* g) {
    volatile unsigned char* b = (volatile unsigned char*)g;
    for (;;) {
        if (b[0]) return 0;                                                       // already initialised
        int me = t_tid;
        if (!b[1]) { b[1] = (unsigned char)(me >= 0 ? me + 1 : 0x7f); return 1; }   // this thread initialises
        int owner = (int)b[1] - 1;
        if (me < 0 || !g_active || owner < 0 || owner >= g_nThreads || owner == me || g_ts[owner].done) { static const char m[] = "VF: static initialiser re-entered or owned outside the scheduler\n"; (void)!::write(2, m, sizeof m - 1); abort(); }
        g_guardWaits++; switchTo(owner); waitTurn(me);
    }
}
NOINST void __cxa_guard_release(uint64_t* g) { volatile unsigned char* b = (volatile unsigned char*)g; b[1] = 0; b[0] = 1; }
NOINST void __cxa_guard_abort(uint64_t* g) { volatile unsigned char* b = (volatile unsigned char*)g; b[1] = 0; }
}
#endif
// ---- libc interposition: coarse points ------------------------------------------------------------
#ifndef VF_FREERUN
extern "C" {
NOINST FILE* fopen64(const char* p, const char* m) { static FILE* (*r)(const char*, const char*) = (FILE * (*)(const char*, const char*)) dlsym(RTLD_NEXT, "fopen64"); vfPoint(true, nullptr); return r(p, m); }
NOINST int fclose(FILE* f) { static int (*r)(FILE*) = (int (*)(FILE*))dlsym(RTLD_NEXT, "fclose"); vfPoint(true, nullptr); return r(f); }
NOINST ssize_t read(int fd, void* b, size_t n) { static ssize_t (*r)(int, void*, size_t) = (ssize_t(*)(int, void*, size_t))dlsym(RTLD_NEXT, "read"); vfPoint(true, nullptr); return r(fd, b, n); }
NOINST ssize_t write(int fd, const void* b, size_t n) { static ssize_t (*r)(int, const void*, size_t) = (ssize_t(*)(int, const void*, size_t))dlsym(RTLD_NEXT, "write"); vfPoint(true, nullptr); return r(fd, b, n); }
NOINST off64_t lseek64(int fd, off64_t o, int w) { static off64_t (*r)(int, off64_t, int) = (off64_t(*)(int, off64_t, int))dlsym(RTLD_NEXT, "lseek64"); vfPoint(true, nullptr); return r(fd, o, w); }
}
#endif

// ---- thread bodies (each thread owns its objects and its directory) -----------------------------------
struct Digest { std::string log; NOINST void add(const std::string& s) { log += s; log += '\n'; } };
static void snapTo(Digest& d, const C3D& c, const char* tag) { std::string t; dumpObject(t, snapObject(c)); d.add(std::string(tag) + " " + hashStr(t).hex()); }
static void fileTo(Digest& d, const std::string& p, const char* tag) { std::string b; readAll(p, b); d.add(std::string(tag) + " " + std::to_string(b.size()) + " " + hashStr(b).hex()); }
#define OPB vfPoint(true, nullptr)

static void bodyLoadSave(const std::string& dir, const std::string& input, Digest& d) {
    OPB; std::unique_ptr<C3D> c; Outcome oc = guarded([&] { c.reset(new C3D(input)); }); d.add(std::string("load ") + outcomeName(oc)); if (oc != OK) return;
    OPB; snapTo(d, *c, "loaded");
    OPB; std::string p = dir + "/out.c3d"; oc = guarded([&] { c->write(p); }); d.add(std::string("save ") + outcomeName(oc)); fileTo(d, p, "file");
    OPB; std::unique_ptr<C3D> c2; oc = guarded([&] { c2.reset(new C3D(p)); }); d.add(std::string("reload ") + outcomeName(oc)); if (oc == OK) snapTo(d, *c2, "reloaded");
    OPB; c2.reset(); c.reset(); d.add("destroyed");
}
// saves into a directory SHARED with the other thread, under names that differ from the other thread's only in the extension (and extension-less ones): different paths all the same
static void bodySharedSaves(const std::string& dir, const std::string& input, Digest& d) {
    OPB; std::unique_ptr<C3D> c; Outcome oc = guarded([&] { c.reset(new C3D(input)); }); d.add(std::string("load ") + outcomeName(oc)); if (oc != OK) return;
    std::string shared = dir.substr(0, dir.rfind('/')) + "/shared.dir"; mkdir(shared.c_str(), 0755); std::string tid = dir.substr(dir.rfind('/') + 1);
    for (std::string p2 : {shared + "/trial." + tid, shared + "/" + tid}) { OPB; unlink(p2.c_str()); oc = guarded([&] { c->write(p2); }); d.add(std::string("save-shared ") + outcomeName(oc)); fileTo(d, p2, "shared-file"); }
    OPB; c.reset(); d.add("destroyed");
}
static void bodyBuild(const std::string& dir, int variant, Digest& d) {
    OPB; C3D c; snapTo(d, c, "fresh");
    OPB; c.point("A"); c.point(variant ? "Q" : "B"); c.analog("a"); snapTo(d, c, "declared");
    OPB; c.parameter("POINT", mkRate(100.f)); c.parameter("ANALOG", mkRate(200.f));
    OPB; { Param p("X_SCREEN"); p.set(std::string(variant ? "+Y" : "+X")); c.parameter("POINT", p); Param q("GEN_SCALE"); q.set(variant ? 2.0f : 0.5f); c.parameter("ANALOG", q); }   // names the library does not maintain, in the groups it does
    OPB; { Param p("X", "some description"); p.set(std::vector<float>() = {1.5f, -2.5f, (float)variant, 4.f}, {2, 2}); c.parameter("NEWG", p); Param q("S"); q.set(std::vector<std::string>() = {"ab", variant ? "wxyz" : "cd"}); c.parameter("NEWG", q); }
    OPB; Shape sh; sh.pts = {"A", variant ? "Q" : "B"}; sh.chans = {"a"}; sh.nsub = 2; c.frame(buildFrame(sh, variant)); c.frame(buildFrame(sh, 2)); snapTo(d, c, "frames");
    OPB; Outcome oc = guarded([&] { Frame f = buildFrame(sh, 1); f.points_nonConst().point(Point("Z")); c.frame(f); }); d.add(std::string("bad frame ") + outcomeName(oc));
    OPB; std::string p = dir + "/built.c3d"; oc = guarded([&] { c.write(p); }); d.add(std::string("save ") + outcomeName(oc)); fileTo(d, p, "file");
    OPB; std::unique_ptr<C3D> c2; oc = guarded([&] { c2.reset(new C3D(p)); }); d.add(std::string("reload ") + outcomeName(oc)); if (oc == OK) snapTo(d, *c2, "reloaded");
    OPB; c2.reset(); d.add("done");
}
static void bodyEdit(const std::string& dir, const std::string& input, Digest& d) {
    OPB; std::unique_ptr<C3D> c; Outcome oc = guarded([&] { c.reset(new C3D(input)); }); d.add(std::string("load ") + outcomeName(oc)); if (oc != OK) return;
    OPB; oc = guarded([&] { c->point("NEWP"); }); d.add(std::string("point ") + outcomeName(oc)); snapTo(d, *c, "column");
    OPB; oc = guarded([&] { c->analog("newc"); }); d.add(std::string("channel ") + outcomeName(oc)); snapTo(d, *c, "channel");
    OPB; oc = guarded([&] { c->lockGroup("POINT"); Param p("K"); p.set(7); c->parameter("EXTRA", p); }); d.add(std::string("param ") + outcomeName(oc));
    OPB; oc = guarded([&] { (void)c->data().frame(99); }); d.add(std::string("lookup ") + outcomeName(oc));
    OPB; std::string p = dir + "/edited.c3d"; oc = guarded([&] { c->write(p); }); d.add(std::string("save ") + outcomeName(oc)); fileTo(d, p, "file");
    OPB; c.reset(); d.add("destroyed");
}
// a FRESH object whose first modifying call is a group lock (no parameter edited, no frame added before), while the other thread constructs and dumps fresh objects of its own
static void bodyFreshLock(const std::string& dir, const char* group, Digest& d) {
    OPB; C3D c; snapTo(d, c, "fresh");
    OPB; Outcome oc = guarded([&] { c.lockGroup(group); }); d.add(std::string("lock ") + outcomeName(oc)); snapTo(d, c, "locked");
    OPB; { C3D other; snapTo(d, other, "another fresh object"); std::string p = dir + "/out.c3d"; oc = guarded([&] { other.write(p); }); d.add(std::string("save ") + outcomeName(oc)); fileTo(d, p, "file"); }
    OPB; oc = guarded([&] { c.unlockGroup(group); }); d.add(std::string("unlock ") + outcomeName(oc)); snapTo(d, c, "unlocked");
    OPB; { C3D third; snapTo(d, third, "a third fresh object"); }
}
struct BodyDef { std::string name; std::function<void(const std::string&, Digest&)> run; bool needsPair = false; };

// ---- a PAIR of objects, one derived from the other: B is filled with frames and parameters taken out of A (by reference to A's stored
// elements, through every hand-over path). From then on they are two independent objects: thread 0 edits A, thread 1 edits B.
static std::unique_ptr<C3D> g_pair[2]; static std::string g_pairInput;
NOINST static void preparePair() {
    g_pair[0].reset(new C3D(g_pairInput)); g_pair[1].reset(new C3D()); C3D& A = *g_pair[0]; C3D& B = *g_pair[1];
    B.parameter("POINT", A.parameters().group("POINT").parameter("RATE")); B.parameter("ANALOG", A.parameters().group("ANALOG").parameter("RATE"));
    for (size_t i = 0; i < A.parameters().group("EXTRA").nbParameters(); ++i) B.parameter("EXTRA", A.parameters().group("EXTRA").parameter(i));
    for (auto& n : A.parameters().group("POINT").parameter("LABELS").valuesAsString()) B.point(n);
    for (auto& n : A.parameters().group("ANALOG").parameter("LABELS").valuesAsString()) B.analog(n);
    B.frame(A.data().frame(0), 0);                       // explicit index at the end of an empty data set
    B.frame(A.data().frame(1), 1);                       // explicit index at the end
    B.frame(A.data().frame(2));                          // append
    { Frame copy = A.data().frame(0); B.frame(copy, 4); }   // a caller-side copy, past the end (leaves a gap frame at 3)
    B.frame(A.data().frame(1), 3);                       // fills the gap: replacement
}
static void bodyPairEdit(int k, const std::string& dir, Digest& d) {
    C3D& c = *g_pair[k]; const char* pn = k ? "extraB" : "extraA"; const char* cn = k ? "chanB" : "chanA";
    OPB; snapTo(d, c, "start");
    OPB; Outcome oc = guarded([&] { c.point(pn); }); d.add(std::string("point ") + outcomeName(oc)); snapTo(d, c, "column");
    OPB; oc = guarded([&] { c.analog(cn); }); d.add(std::string("channel ") + outcomeName(oc)); snapTo(d, c, "channel");
    OPB; oc = guarded([&] { c.data().frame(0).points_nonConst().point_nonConst(0).x(k ? -2222.5f : 1111.5f); c.data().frame(1).analogs_nonConst().subframe_nonConst(0).channel_nonConst(0).data(k ? -3.5f : 7.5f); }); d.add(std::string("edit ") + outcomeName(oc)); snapTo(d, c, "edited");
    OPB; oc = guarded([&] { Param p("OWNER"); p.set(k ? 2 : 1); c.parameter("EXTRA", p); c.lockGroup("EXTRA"); }); d.add(std::string("param ") + outcomeName(oc)); snapTo(d, c, "param");
    OPB; std::string p = dir + "/out.c3d"; oc = guarded([&] { c.write(p); }); d.add(std::string("save ") + outcomeName(oc)); fileTo(d, p, "file");
    OPB; snapTo(d, c, "end");
}

static std::vector<BodyDef> makeBodies(const std::string& scratch) {
    // input files (written once, read-only afterwards; every thread reads its OWN copy)
    auto mk = [&](const std::string& name, const std::string& choice) { gen::Content c; gen::Layout l; gen::apply(gen::parseChoice(choice), c, l); std::string b = gen::encode(c, l); std::string p = scratch + "/" + name; FILE* f = fopen(p.c_str(), "wb"); fwrite(b.data(), 1, b.size(), f); fclose(f); return p; };
    std::string fA = mk("inA.c3d", "frames=3;events=2"), fA2 = mk("inA2.c3d", "frames=3;events=2"), fB = mk("inB.c3d", "zeros=7;extra=all;values=special"), fC = mk("inC.c3d", "points=3;chans=1;order=paramsFirst");
    std::string fU = mk("inU.c3d", "points=3;labels=fewer;alabels=fewer;frames=3"), fU2 = mk("inU2.c3d", "points=3;chans=3;labels=fewer;alabels=fewer");
    std::string fM = mk("inM.c3d", "optparams=minimal;chans=1;points=1"), fR = mk("inR.c3d", "optparams=rich;points=1");   // files that lack DIFFERENT optional parameters (the library adds the missing ones when a column is added)
    g_pairInput = fA;
    std::vector<BodyDef> b;
    b.push_back({"pair.A", [](const std::string& d, Digest& g) { bodyPairEdit(0, d, g); }, true});
    b.push_back({"pair.B", [](const std::string& d, Digest& g) { bodyPairEdit(1, d, g); }, true});
    b.push_back({"freshlock(POINT)", [](const std::string& d, Digest& g) { bodyFreshLock(d, "POINT", g); }});
    b.push_back({"freshlock(ANALOG)", [](const std::string& d, Digest& g) { bodyFreshLock(d, "ANALOG", g); }});
    b.push_back({"sharedsave(A)", [fA](const std::string& d, Digest& g) { bodySharedSaves(d, fA, g); }});
    b.push_back({"sharedsave(C)", [fC](const std::string& d, Digest& g) { bodySharedSaves(d, fC, g); }});
    b.push_back({"edit(M)", [fM](const std::string& d, Digest& g) { bodyEdit(d, fM, g); }});
    b.push_back({"edit(R)", [fR](const std::string& d, Digest& g) { bodyEdit(d, fR, g); }});
    b.push_back({"loadsave(U)", [fU](const std::string& d, Digest& g) { bodyLoadSave(d, fU, g); }});
    b.push_back({"loadsave(U')", [fU2](const std::string& d, Digest& g) { bodyLoadSave(d, fU2, g); }});
    b.push_back({"loadsave(A)", [fA](const std::string& d, Digest& g) { bodyLoadSave(d, fA, g); }});
    b.push_back({"loadsave(A')", [fA2](const std::string& d, Digest& g) { bodyLoadSave(d, fA2, g); }});
    b.push_back({"loadsave(B)", [fB](const std::string& d, Digest& g) { bodyLoadSave(d, fB, g); }});
    b.push_back({"build(0)", [](const std::string& d, Digest& g) { bodyBuild(d, 0, g); }});
    b.push_back({"build(1)", [](const std::string& d, Digest& g) { bodyBuild(d, 1, g); }});
    b.push_back({"edit(C)", [fC](const std::string& d, Digest& g) { bodyEdit(d, fC, g); }});
    return b;
}

// one execution of `bodies` (indices) under `plan` starting with thread `first`; returns digests
struct ExecOut { std::vector<std::string> digests; std::vector<uint64_t> fine, coarse; };
static ExecOut execute(const std::vector<BodyDef>& defs, const std::vector<int>& which, const std::string& scratch, const std::vector<Preempt>& plan, int first) {
    int n = (int)which.size(); g_nThreads = n; for (int i = 0; i < MAXT; ++i) g_ts[i] = TS(); g_plan = plan; g_planPos = 0; for (auto& x : g_preemptFn) x = nullptr;
    std::vector<Digest> dg((size_t)n); std::vector<std::thread> th;
    { bool pair = false; for (int w : which) if (defs[(size_t)w].needsPair) pair = true; if (pair) preparePair(); }   // by the main thread, before any managed thread exists
    g_current.store(-1); g_active = true;
    for (int i = 0; i < n; ++i) {
        std::string dir = scratch + "/t" + std::to_string(i); mkdir(dir.c_str(), 0755);
        for (auto leaf : {"/out.c3d", "/built.c3d", "/edited.c3d"}) unlink((dir + leaf).c_str());   // every execution starts from the same file-system state (what an earlier execution left at a destination is C14's business)
        th.emplace_back([&, i, dir]() {
            t_tid = i;
#ifndef VF_FREERUN
            waitTurn(i);
#else
            while (g_current.load() != 0) { }   // start barrier
#endif
            defs[(size_t)which[(size_t)i]].run(dir, dg[(size_t)i]);
            threadDone(i);
        });
    }
#ifndef VF_FREERUN
    switchTo(first);
#else
    (void)first; g_current.store(0);
#endif
    for (auto& t : th) t.join();
    g_active = false;
    ExecOut o; for (int i = 0; i < n; ++i) { o.digests.push_back(dg[(size_t)i].log); o.fine.push_back(g_ts[i].fine); o.coarse.push_back(g_ts[i].coarse); }
    return o;
}
static std::string fnName(void* fn) {
    if (!fn) return "?"; Dl_info di; if (!dladdr(fn, &di) || !di.dli_sname) return "?"; int st = 0; char* d = abi::__cxa_demangle(di.dli_sname, nullptr, nullptr, &st); std::string r = (st == 0 && d) ? d : di.dli_sname; free(d); size_t par = r.find('('); if (par != std::string::npos) r = r.substr(0, par); return r;
}
static std::string firstDiffLine(const std::string& a, const std::string& b) {
    std::stringstream sa(a), sb(b); std::string la, lb; while (true) { bool ea = !std::getline(sa, la), eb = !std::getline(sb, lb); if (ea && eb) return "?"; if (ea || eb || la != lb) { std::string k = ea ? lb : la; return k.substr(0, k.find(' ')); } }
}

// Every execution runs in its OWN freshly forked process that has never executed library code ("cold"): lazily initialised
// process-wide state (function-local statics, tables filled at first use) is then part of what the schedules interleave.
static std::string inChild(const std::string& resultPath, const std::function<std::string()>& fn, int* statusOut = nullptr) {
    unlink(resultPath.c_str()); fflush(stdout); fflush(stderr);
    pid_t c = fork();
    if (c == 0) { alarm(30); std::string r = fn(); FILE* f = fopen(resultPath.c_str(), "wb"); if (f) { fwrite(r.data(), 1, r.size(), f); fclose(f); } _exit(0); }   // a deadlocked execution is ended by SIGALRM
    int st = 0; waitpid(c, &st, 0);
    if (statusOut) *statusOut = (WIFSIGNALED(st) && WTERMSIG(st) == SIGALRM) ? -1 : st;
    std::string out; readAll(resultPath, out); return out;
}
static std::string packExec(const ExecOut& o) {   // digests and counters, length-prefixed
    std::string r; for (size_t i = 0; i < o.digests.size(); ++i) { r += std::to_string(o.fine[i]) + " " + std::to_string(o.coarse[i]) + " " + std::to_string(o.digests[i].size()) + "\n" + o.digests[i]; } return r;
}
static ExecOut unpackExec(const std::string& r) {
    ExecOut o; size_t p = 0; while (p < r.size()) { size_t nl = r.find('\n', p); if (nl == std::string::npos) break; unsigned long long f = 0, c = 0, n = 0; sscanf(r.c_str() + p, "%llu %llu %llu", &f, &c, &n); o.fine.push_back(f); o.coarse.push_back(c); o.digests.push_back(r.substr(nl + 1, (size_t)n)); p = nl + 1 + (size_t)n; } return o;
}
struct Sched { int pair; int first; std::vector<Preempt> plan; };
struct FCrumb { volatile uint64_t idx, progress; volatile uint32_t done; };

int main(int argc, char** argv) {
    std::string tier = "quick", scratch, out, one; int workers = 16, reps = 20; double deadlineS = 1e9;
    for (int i = 1; i < argc; ++i) { std::string a = argv[i]; auto nxt = [&]() { return std::string(argv[++i]); };
        if (a == "--tier") tier = nxt(); else if (a == "--scratch") scratch = nxt(); else if (a == "--out") out = nxt(); else if (a == "--workers") workers = atoi(nxt().c_str()); else if (a == "--reps") reps = atoi(nxt().c_str()); else if (a == "--deadline") deadlineS = atof(nxt().c_str()); else if (a == "--schedule") one = nxt(); else { fprintf(stderr, "unknown arg %s\n", a.c_str()); return 2; } }
    if (scratch.empty()) scratch = "/dev/shm/ezc3d-verif-sched." + std::to_string(getpid()); mkdir(scratch.c_str(), 0755);
    bool thorough = tier == "thorough";
    std::vector<BodyDef> defs = makeBodies(scratch);
    auto idx = [&](const std::string& n) { for (size_t i = 0; i < defs.size(); ++i) if (defs[i].name == n) return (int)i; return -1; };
    std::vector<std::vector<int>> groups = {{idx("loadsave(U)"), idx("loadsave(U')")}, {idx("loadsave(A)"), idx("loadsave(A')")}, {idx("loadsave(A)"), idx("build(0)")}, {idx("build(0)"), idx("build(1)")}, {idx("loadsave(B)"), idx("edit(C)")}, {idx("edit(M)"), idx("edit(C)")}, {idx("pair.A"), idx("pair.B")}, {idx("freshlock(POINT)"), idx("freshlock(ANALOG)")}, {idx("sharedsave(A)"), idx("sharedsave(C)")}};
    if (thorough) { groups.push_back({idx("edit(C)"), idx("build(1)")}); groups.push_back({idx("loadsave(A)"), idx("loadsave(B)")}); groups.push_back({idx("loadsave(A)"), idx("build(0)"), idx("edit(C)")}); groups.push_back({idx("edit(M)"), idx("edit(R)")}); }
    auto jstr = [](const std::string& s) { std::string o = "\""; for (unsigned char ch : s) { if (ch == '"' || ch == '\\') { o += '\\'; o += (char)ch; } else if (ch == '\n') o += "\\n"; else if (ch < 32 || ch > 126) o += '?'; else o += (char)ch; } return o + "\""; };
    auto groupName = [&](const std::vector<int>& g) { std::string s; for (int b : g) { if (!s.empty()) s += " || "; s += defs[(size_t)b].name; } return s; };
#ifdef VF_FREERUN
    // ---- free-running pass under ThreadSanitizer: the detector for unsynchronised sharing -------------------
    size_t runs = 0; double t0 = nowS();
    // every other repetition runs in a process of its own that has never executed library code: races on lazily initialised process-wide state
    // (the FIRST insertion into a function-local table, the first use of a cache) only exist there; the remaining repetitions run warm, in this process
    // (all the cold runs come FIRST: a child forked after this process has run library code would inherit its warm state)
    for (int pass = 0; pass < 2; ++pass) for (auto& g : groups) for (int r = pass; r < reps; r += 2) {
        if (getenv("VF_ONLY_GROUP") && groupName(g) != getenv("VF_ONLY_GROUP")) continue;
        if (pass == 0) { fflush(stdout); fflush(stderr); pid_t c = fork(); if (c == 0) { alarm(60); execute(defs, g, scratch, {}, 0); _exit(0); } int st = 0; waitpid(c, &st, 0); }
        else execute(defs, g, scratch, {}, 0);
        runs++; }
    FILE* f = out.empty() ? stdout : fopen(out.c_str(), "w");
    fprintf(f, "{\"mode\": \"freerun\", \"groups\": %zu, \"repetitions\": %d, \"runs\": %zu, \"wall_s\": %.1f}\n", groups.size(), reps, runs, nowS() - t0); if (f != stdout) fclose(f);
    return 0;
#else
    // ---- solo digests and point counts ---------------------------------------------------------------
    std::vector<std::string> solo(defs.size()); std::vector<uint64_t> fineN(defs.size()), coarseN(defs.size());
    std::vector<std::string> soloDiffers;
    for (size_t b = 0; b < defs.size(); ++b) {   // the master never runs library code itself: solo runs happen in pristine children
        std::string r = inChild(scratch + "/solo.res", [&] { ExecOut cold = execute(defs, {(int)b}, scratch, {}, 0); ExecOut warm = execute(defs, {(int)b}, scratch, {}, 0); ExecOut both; both.digests = {cold.digests[0], warm.digests[0]}; both.fine = {cold.fine[0], warm.fine[0]}; both.coarse = {cold.coarse[0], warm.coarse[0]}; return packExec(both); });
        ExecOut o = unpackExec(r); if (o.digests.size() != 2) { fprintf(stderr, "solo run of %s failed\n", defs[b].name.c_str()); return 3; }
        solo[b] = o.digests[0]; fineN[b] = o.fine[0]; coarseN[b] = o.coarse[0];
        if (o.digests[1] != solo[b]) soloDiffers.push_back(defs[b].name);                          // what a thread observes depends on what ran before in the process
        std::string r2 = inChild(scratch + "/solo.res", [&] { return packExec(execute(defs, {(int)b}, scratch, {}, 0)); }); ExecOut o2 = unpackExec(r2);
        if (o2.digests.size() != 1 || o2.digests[0] != solo[b] || o2.fine[0] != fineN[b]) { fprintf(stderr, "body %s is not deterministic when run alone in a fresh process\n", defs[b].name.c_str()); return 3; }
    }
    // ---- schedules ------------------------------------------------------------------------------------
    std::vector<Sched> S;
    for (size_t gi = 0; gi < groups.size(); ++gi) {
        const auto& g = groups[gi]; int n = (int)g.size();
        for (int first = 0; first < n; ++first) S.push_back({(int)gi, first, {}});                                         // 0 preemptions: every thread order (others follow in index order)
        for (int t = 0; t < n; ++t) for (int to = 0; to < n; ++to) if (to != t) for (uint64_t k = 1; k <= fineN[(size_t)g[(size_t)t]]; ++k) S.push_back({(int)gi, t, {{t, false, k, to}}});   // 1 preemption at every fine point
        if (n == 2 && (thorough || gi == 1 || gi == 3)) for (int t = 0; t < 2; ++t) { int u = 1 - t; for (uint64_t i = 1; i <= coarseN[(size_t)g[(size_t)t]]; ++i) for (uint64_t j = 1; j <= coarseN[(size_t)g[(size_t)u]]; ++j) S.push_back({(int)gi, t, {{t, true, i, u}, {u, true, j, t}}}); }   // 2 preemptions over coarse points
    }
    auto schedText = [&](const Sched& s) { std::string t = "group=" + std::to_string(s.pair) + ";first=" + std::to_string(s.first); for (auto& p : s.plan) t += ";preempt(t" + std::to_string(p.tid) + (p.coarse ? ",coarse#" : ",fine#") + std::to_string(p.at) + "->t" + std::to_string(p.to) + ")"; return t; };
    if (!one.empty()) {
        for (auto& s : S) if (schedText(s) == one) {
            for (int rep = 0; rep < 2; ++rep) { std::string raw = inChild(scratch + "/replay.res", [&] { ExecOut e = execute(defs, groups[(size_t)s.pair], scratch, s.plan, s.first); return packExec(e) + "@FN@" + fnName(g_preemptFn[0]); }); ExecOut o = unpackExec(raw); std::string fnr = raw.rfind("@FN@") == std::string::npos ? "?" : raw.substr(raw.rfind("@FN@") + 4); if (o.digests.size() != groups[(size_t)s.pair].size()) { printf("run %d: the execution died\n", rep + 1); continue; } for (size_t i = 0; i < o.digests.size(); ++i) { bool same = o.digests[i] == solo[(size_t)groups[(size_t)s.pair][i]]; printf("run %d thread %zu (%s): digest %s%s\n", rep + 1, i, defs[(size_t)groups[(size_t)s.pair][i]].name.c_str(), same ? "== solo" : "DIFFERS from solo at ", same ? "" : firstDiffLine(o.digests[i], solo[(size_t)groups[(size_t)s.pair][i]]).c_str()); }
                printf("  preempted in: %s\n", fnr.c_str()); }
            return 0;
        }
        printf("schedule not found\n"); return 2;
    }
    double t0 = nowS(), deadline = t0 + deadlineS;
    FCrumb* crumbs = (FCrumb*)mmap(nullptr, sizeof(FCrumb) * (size_t)workers, PROT_READ | PROT_WRITE, MAP_SHARED | MAP_ANONYMOUS, -1, 0);
    std::vector<pid_t> pids((size_t)workers, 0); std::vector<uint64_t> from((size_t)workers, 0); std::vector<std::pair<std::string, std::string>> crashes; int restarts = 0;
    auto spawn = [&](int wi) {
        crumbs[wi].done = 0; fflush(stdout); pid_t p = fork();
        if (p == 0) {
            std::string wdir = scratch + "/w" + std::to_string(wi); mkdir(wdir.c_str(), 0755); FILE* fo = fopen((wdir + ".res").c_str(), "a");
            for (uint64_t i = from[wi]; i < S.size(); ++i) {
                if ((int)(i % (uint64_t)workers) != wi) continue; if (nowS() > deadline) break;
                crumbs[wi].idx = i; crumbs[wi].progress++;
                const Sched& s = S[i]; const auto& g = groups[(size_t)s.pair];
                std::string fnAt; int cst = 0;
                bool coldProc = thorough || s.plan.size() <= 1;   // quick tier: the two-preemption sweep over coarse points runs inside the (warm) worker
                auto runCold = [&]() { if (!coldProc) { ExecOut e = execute(defs, g, wdir, s.plan, s.first); FILE* fx = fopen((wdir + ".exec").c_str(), "wb"); std::string r = packExec(e) + "@FN@" + fnName(g_preemptFn[0]); fwrite(r.data(), 1, r.size(), fx); fclose(fx); cst = 0; return e; }
                    return unpackExec(inChild(wdir + ".exec", [&] { ExecOut e = execute(defs, g, wdir, s.plan, s.first); return packExec(e) + "@FN@" + fnName(g_preemptFn[0]); }, &cst)); };
                auto fnOf = [&]() { std::string raw; readAll(wdir + ".exec", raw); size_t q = raw.rfind("@FN@"); return q == std::string::npos ? std::string("?") : raw.substr(q + 4); };
                ExecOut o = runCold(); fnAt = fnOf(); bool bad = false; std::string what;
                if (o.digests.size() != g.size()) { fprintf(fo, "C\t%llu\t%s\n", (unsigned long long)i, cst == -1 ? "hang/deadlock" : WIFSIGNALED(cst) ? ("signal " + std::to_string(WTERMSIG(cst))).c_str() : "exit"); fprintf(fo, "D\t%llu\t%zu\n", (unsigned long long)i, s.plan.size()); fflush(fo); continue; }
                for (size_t k = 0; k < g.size(); ++k) if (o.digests[k] != solo[(size_t)g[k]]) { bad = true; what += "t" + std::to_string(k) + ":" + defs[(size_t)g[k]].name + "@" + firstDiffLine(o.digests[k], solo[(size_t)g[k]]) + " "; }
                if (bad) {   // replay before report: the same schedule must fail the same way
                    ExecOut o2 = runCold(); bool same = o2.digests == o.digests;
                    fprintf(fo, "V\t%llu\t%s\t%s\t%s\n", (unsigned long long)i, same ? "deterministic" : "NOT-REPRODUCED", fnAt.c_str(), what.c_str());
                }
                fprintf(fo, "D\t%llu\t%zu\n", (unsigned long long)i, s.plan.size()); fflush(fo);
            }
            crumbs[wi].done = 1; fclose(fo); _exit(0);
        }
        pids[wi] = p;
    };
    for (int wi = 0; wi < workers; ++wi) unlink((scratch + "/w" + std::to_string(wi) + ".res").c_str());
    int live = 0; for (int wi = 0; wi < workers; ++wi) { spawn(wi); live++; }
    std::vector<double> lastProg((size_t)workers, nowS()); std::vector<uint64_t> lastVal((size_t)workers, 0);
    while (live > 0) {
        bool any = false;
        for (int wi = 0; wi < workers; ++wi) {
            if (!pids[wi]) continue; int st = 0; pid_t r = waitpid(pids[wi], &st, WNOHANG); bool hang = false;
            if (r == 0) { if (crumbs[wi].progress != lastVal[wi]) { lastVal[wi] = crumbs[wi].progress; lastProg[wi] = nowS(); continue; } if (nowS() - lastProg[wi] > 20) { kill(pids[wi], SIGKILL); waitpid(pids[wi], &st, 0); hang = true; } else continue; }
            any = true; pids[wi] = 0; live--;
            if (!(!hang && WIFEXITED(st) && WEXITSTATUS(st) == 0 && crumbs[wi].done)) {
                uint64_t i = crumbs[wi].idx; crashes.push_back({hang ? "hang/deadlock" : WIFSIGNALED(st) ? "signal " + std::to_string(WTERMSIG(st)) : "exit " + std::to_string(WEXITSTATUS(st)), i < S.size() ? schedText(S[i]) : "?"});
                if (++restarts <= 500) { from[wi] = i + 1; lastProg[wi] = nowS(); spawn(wi); live++; }
            }
        }
        if (!any) usleep(2000);
    }
    uint64_t done = 0, byPre[3] = {0, 0, 0}; struct VR { std::string sig, sched, what; uint64_t count; }; std::map<std::string, VR> viol;
    for (int wi = 0; wi < workers; ++wi) {
        std::ifstream fr(scratch + "/w" + std::to_string(wi) + ".res"); std::string line;
        while (std::getline(fr, line)) {
            std::vector<std::string> f; size_t a = 0; while (true) { size_t b = line.find('\t', a); f.push_back(line.substr(a, b == std::string::npos ? std::string::npos : b - a)); if (b == std::string::npos) break; a = b + 1; }
            if (f[0] == "C" && f.size() >= 3) { uint64_t i = strtoull(f[1].c_str(), nullptr, 10); crashes.push_back({f[2], i < S.size() ? schedText(S[i]) : "?"}); }
            if (f[0] == "D" && f.size() >= 3) { done++; int np = atoi(f[2].c_str()); if (np >= 0 && np < 3) byPre[np]++; }
            if (f[0] == "V" && f.size() >= 5) { uint64_t i = strtoull(f[1].c_str(), nullptr, 10); const Sched& s = S[i]; std::string sig = (f[2] == "deterministic" ? "digest_differs/" : "harness/schedule_not_reproducible/") + groupName(groups[(size_t)s.pair]) + "/preempted_in=" + f[3] + "/" + f[4]; auto it = viol.find(sig); if (it == viol.end()) viol[sig] = {sig, schedText(s), f[4], 1}; else it->second.count++; }
        }
    }
    for (auto& nm : soloDiffers) viol["solo"] = {"solo_runs_differ/" + nm, "first and second run of the body alone in one process", "the body's observations depend on what ran before in the process (hidden process-wide state)", 1};
    FILE* f = out.empty() ? stdout : fopen(out.c_str(), "w");
    fprintf(f, "{\n \"mode\": \"explore\", \"tier\": %s, \"schedules\": %zu, \"done\": %llu, \"by_preemptions\": [%llu, %llu, %llu], \"restarts\": %d, \"wall_s\": %.1f,\n \"groups\": [", jstr(tier).c_str(), S.size(), (unsigned long long)done, (unsigned long long)byPre[0], (unsigned long long)byPre[1], (unsigned long long)byPre[2], restarts, nowS() - t0);
    for (size_t gi = 0; gi < groups.size(); ++gi) { fprintf(f, "%s{\"threads\": %s, \"fine_points\": [", gi ? ", " : "", jstr(groupName(groups[gi])).c_str()); for (size_t k = 0; k < groups[gi].size(); ++k) fprintf(f, "%s%llu", k ? "," : "", (unsigned long long)fineN[(size_t)groups[gi][k]]); fprintf(f, "], \"coarse_points\": ["); for (size_t k = 0; k < groups[gi].size(); ++k) fprintf(f, "%s%llu", k ? "," : "", (unsigned long long)coarseN[(size_t)groups[gi][k]]); fprintf(f, "]}"); }
    fprintf(f, "],\n \"samples\": ["); for (size_t i = 0, n = 0; i < S.size() && n < 8; i += std::max<size_t>(1, S.size() / 7), ++n) fprintf(f, "%s%s", n ? ", " : "", jstr(schedText(S[i])).c_str());
    fprintf(f, "],\n \"violations\": [\n"); { bool first = true; for (auto& kv : viol) { fprintf(f, "%s  {\"sig\": %s, \"schedule\": %s, \"detail\": %s, \"count\": %llu}", first ? "" : ",\n", jstr(kv.second.sig).c_str(), jstr(kv.second.sched).c_str(), jstr(kv.second.what).c_str(), (unsigned long long)kv.second.count); first = false; } }
    fprintf(f, "\n ],\n \"crashes\": [\n"); for (size_t i = 0; i < crashes.size() && i < 100; ++i) fprintf(f, "%s  {\"kind\": %s, \"schedule\": %s}", i ? ",\n" : "", jstr(crashes[i].first).c_str(), jstr(crashes[i].second).c_str()); fprintf(f, "\n ],\n \"crashes_total\": %zu\n}\n", crashes.size());
    if (f != stdout) fclose(f);
    return 0;
#endif
}
