// drv_containers.cpp — the library's container classes used STAND-ALONE (no c3d object): explicit-state exploration of each
// container against a boring reference model written here (a std::vector of plain records).
//   Points / SubFrame / Analogs: append, indexed set (inside, at size, past the end), rename through the write accessor
//   Frame: add(points), add(analogs), add(points, analogs) from sources that are edited afterwards (independence)
//   Group: add / replace by exact name, lock, unlock, name, description;   Parameters: group(g) = append or merge
//   Header: setters, getters, write -> the bytes of the header block
// After every op the whole container is read back through every accessor (by position 0..size+1, by every name of the menu,
// first-match rule) and compared with the model; outcome classes must agree too. State = dump text; BFS with deduplication.
//   drv_containers --depth D --out FILE [--scratch DIR]
#include "probes.h"
#include "refc3d.h"
#include <sys/wait.h>
#include <sys/mman.h>
#include <deque>
#include <set>

using namespace vf;

struct MEl { std::string name; uint32_t v[4] = {0, 0, 0, 0}; };              // a point (4 values) or a channel (v[0])
static std::string trimmed(std::string s) { vf::trimSpaces(s); return s; }
static std::string dumpModel(const std::vector<MEl>& m, int nv) { std::string o; for (auto& e : m) { esc(o, e.name); for (int k = 0; k < nv; ++k) { o += k ? '/' : ':'; hex8(o, e.v[k]); } o += ' '; } return o; }

struct CViol { std::string sig, detail, hist; size_t count = 1; };
static std::map<std::string, CViol> g_viol; static uint64_t g_states = 0, g_trans = 0, g_lookups = 0;
static void report(const std::string& sig, const std::string& detail, const std::string& hist) { auto it = g_viol.find(sig); if (it == g_viol.end()) g_viol[sig] = {sig, detail, hist, 1}; else it->second.count++; }

static const char* NAMES[] = {"A", "B", "A ", "", "Long_Name_Of_17ch"};
static const size_t IDX[] = {0, 1, 2, 4};          // for indexed sets: inside / at size / past the end, depending on the size

// ---------------------------------------------------------------------------------------------- Points / SubFrame
template <class Real> struct ElemTraits;
template <> struct ElemTraits<Points> {
    static const int NV = 4; static const char* what() { return "points"; }
    static void append(Points& c, const std::string& n, int vs) { Point p; p.name(n); p.x(val(vs, 0, 0)); p.y(val(vs, 0, 1)); p.z(val(vs, 0, 2)); p.residual(resid(vs, 1)); c.point(p); }
    static void set(Points& c, size_t i, const std::string& n, int vs) { Point p(n); p.x(val(vs, 1, 0)); p.y(val(vs, 1, 1)); p.z(val(vs, 1, 2)); p.residual(resid(vs, 0)); c.point(p, i); }
    static MEl appended(const std::string& n, int vs) { MEl e; e.name = trimmed(n); e.v[0] = fbits(val(vs, 0, 0)); e.v[1] = fbits(val(vs, 0, 1)); e.v[2] = fbits(val(vs, 0, 2)); e.v[3] = fbits(resid(vs, 1)); return e; }
    static MEl setEl(const std::string& n, int vs) { MEl e; e.name = trimmed(n); e.v[0] = fbits(val(vs, 1, 0)); e.v[1] = fbits(val(vs, 1, 1)); e.v[2] = fbits(val(vs, 1, 2)); e.v[3] = fbits(resid(vs, 0)); return e; }
    static size_t size(const Points& c) { return c.nbPoints(); }
    static MEl at(const Points& c, size_t i) { const Point& p = c.point(i); MEl e; e.name = p.name(); e.v[0] = fbits(p.x()); e.v[1] = fbits(p.y()); e.v[2] = fbits(p.z()); e.v[3] = fbits(p.residual()); return e; }
    static size_t idxOf(const Points& c, const std::string& n) { return c.pointIdx(n); }
    static MEl byName(const Points& c, const std::string& n) { const Point& p = c.point(n); MEl e; e.name = p.name(); e.v[0] = fbits(p.x()); e.v[1] = fbits(p.y()); e.v[2] = fbits(p.z()); e.v[3] = fbits(p.residual()); return e; }
    static void rename(Points& c, size_t i, const std::string& n) { c.point_nonConst(i).name(n); }
    static void poke(Points& c, size_t i) { c.point_nonConst(i).y(-4321.5f); }
    static void pokeModel(MEl& e) { e.v[1] = fbits(-4321.5f); }
};
template <> struct ElemTraits<SubFrame> {
    static const int NV = 1; static const char* what() { return "subframe"; }
    static void append(SubFrame& c, const std::string& n, int vs) { Channel ch; ch.name(n); ch.data(aval(vs, 0, 0)); c.channel(ch); }
    static void set(SubFrame& c, size_t i, const std::string& n, int vs) { Channel ch(n); ch.data(aval(vs, 1, 1)); c.channel(ch, i); }
    static MEl appended(const std::string& n, int vs) { MEl e; e.name = trimmed(n); e.v[0] = fbits(aval(vs, 0, 0)); return e; }
    static MEl setEl(const std::string& n, int vs) { MEl e; e.name = trimmed(n); e.v[0] = fbits(aval(vs, 1, 1)); return e; }
    static size_t size(const SubFrame& c) { return c.nbChannels(); }
    static MEl at(const SubFrame& c, size_t i) { const Channel& p = c.channel(i); MEl e; e.name = p.name(); e.v[0] = fbits(p.data()); return e; }
    static size_t idxOf(const SubFrame& c, const std::string& n) { return c.channelIdx(n); }
    static MEl byName(const SubFrame& c, const std::string& n) { const Channel& p = c.channel(n); MEl e; e.name = p.name(); e.v[0] = fbits(p.data()); return e; }
    static void rename(SubFrame& c, size_t i, const std::string& n) { c.channel_nonConst(i).name(n); }
    static void poke(SubFrame& c, size_t i) { c.channel_nonConst(i).data(-4321.5f); }
    static void pokeModel(MEl& e) { e.v[0] = fbits(-4321.5f); }
};
static bool same(const MEl& a, const MEl& b, int nv) { if (a.name != b.name) return false; for (int k = 0; k < nv; ++k) if (a.v[k] != b.v[k]) return false; return true; }

struct ElOp { int kind; size_t idx; int name; int vs; };   // 0 append, 1 set, 2 rename, 3 poke, 4 copy-then-edit-the-copy
static std::string opText(const ElOp& o) { const char* k[] = {"append", "set", "rename", "poke", "copy+edit"}; return std::string(k[o.kind]) + "(" + (o.kind == 0 ? "" : std::to_string(o.idx) + ",") + (o.kind == 3 || o.kind == 4 ? "" : std::string("'") + NAMES[o.name] + "'") + ")"; }

template <class Real> static void exploreElems(int depth) {
    typedef ElemTraits<Real> T; const int NV = T::NV; std::string cont = T::what();
    std::vector<ElOp> ops;
    for (int n = 0; n < 5; ++n) { ops.push_back({0, 0, n, n % 3}); for (size_t i : IDX) ops.push_back({1, i, n, (n + 1) % 3}); }
    for (size_t i : {(size_t)0, (size_t)1}) { ops.push_back({2, i, 1, 0}); ops.push_back({2, i, 2, 0}); ops.push_back({3, i, 0, 0}); }
    ops.push_back({4, 0, 0, 0});
    typedef std::vector<int> Hist; std::set<std::string> seen; std::deque<Hist> frontier; frontier.push_back({});
    auto build = [&](const Hist& h, Real& c, std::vector<MEl>& m, std::vector<bool>& gap, std::string& outcomeMismatch) {
        for (int id : h) { const ElOp& o = ops[(size_t)id];
            Outcome oc = OK; bool expectThrow = false;
            if (o.kind == 0) { oc = guarded([&] { T::append(c, NAMES[o.name], o.vs); }); m.push_back(T::appended(NAMES[o.name], o.vs)); gap.push_back(false); }
            else if (o.kind == 1) { oc = guarded([&] { T::set(c, o.idx, NAMES[o.name], o.vs); }); if (o.idx >= m.size()) { size_t old = m.size(); m.resize(o.idx + 1); gap.resize(o.idx + 1, false); for (size_t k = old; k < o.idx; ++k) gap[k] = true; } m[o.idx] = T::setEl(NAMES[o.name], o.vs); gap[o.idx] = false; }
            else if (o.kind == 2) { expectThrow = o.idx >= m.size(); oc = guarded([&] { T::rename(c, o.idx, NAMES[o.name]); }); if (!expectThrow) { m[o.idx].name = trimmed(NAMES[o.name]); gap[o.idx] = false; } }   // (a gap element is a default element: name "", values 0; once edited it is an element like any other)
            else if (o.kind == 3) { expectThrow = o.idx >= m.size(); oc = guarded([&] { T::poke(c, o.idx); }); if (!expectThrow) { T::pokeModel(m[o.idx]); gap[o.idx] = false; } }
            else { Real copy = c; oc = guarded([&] { T::append(copy, "COPYONLY", 1); if (T::size(copy) > 1) T::poke(copy, 0); }); }   // a copy is a value: editing it leaves the original alone
            if ((oc != OK) != expectThrow || (expectThrow && oc != OUT_OF_RANGE)) outcomeMismatch = opText(o) + " -> " + outcomeName(oc);
        }
    };
    for (int d = 0; d <= depth; ++d) {
        std::deque<Hist> next;
        for (auto& h : frontier) {
            Real c; std::vector<MEl> m; std::vector<bool> gap; std::string om; build(h, c, m, gap, om);
            std::string hist; for (int id : h) hist += (hist.empty() ? "" : " ; ") + opText(ops[(size_t)id]);
            if (!om.empty()) report(cont + "/outcome", om, hist);
            // read everything back
            bool sizeOk = T::size(c) == m.size(); if (!sizeOk) report(cont + "/size", "holds " + S(T::size(c)) + ", model " + S(m.size()), hist);
            for (size_t i = 0; i <= m.size() + 1; ++i) { g_lookups++; MEl e; Outcome oc = guarded([&] { e = T::at(c, i); });
                if (i < m.size()) { if (oc != OK) report(cont + "/pos/in->" + outcomeName(oc), "index " + S(i), hist); else if (gap[i] ? e.name != "" : !same(e, m[i], NV)) report(cont + std::string("/pos/wrong_element") + (gap[i] ? "/gap" : ""), "index " + S(i) + " holds " + dumpModel({e}, NV) + " model " + dumpModel({m[i]}, NV), hist);
                    if (oc == OK && gap[i]) for (int k = 0; k < NV; ++k) if (e.v[k] != 0) { report(cont + "/gap_element_not_zero", "an element created by an indexed set past the end holds " + dumpModel({e}, NV) + " (values nobody set)", hist); break; } }
                else if (oc != OUT_OF_RANGE) report(cont + "/pos/beyond->" + outcomeName(oc), "index " + S(i) + " of " + S(m.size()), hist); }
            std::vector<std::string> probe; for (auto n : NAMES) { probe.push_back(n); probe.push_back(trimmed(n)); } probe.push_back("COPYONLY"); probe.push_back("a"); probe.push_back("Long_Name_Of_17cx");
            for (auto& n : probe) { g_lookups += 2; long first = -1; for (size_t i = 0; i < m.size(); ++i) if (m[i].name == n) { first = (long)i; break; }
                size_t gi = 0; MEl e; Outcome o1 = guarded([&] { gi = T::idxOf(c, n); }), o2 = guarded([&] { e = T::byName(c, n); });
                if (first >= 0) { if (o1 != OK || gi != (size_t)first) report(cont + "/name/idx", "'" + n + "' expected " + S((size_t)first) + (o1 == OK ? " got " + S(gi) : std::string(" threw ") + outcomeName(o1)), hist); if (o2 != OK || (!gap[(size_t)first] && !same(e, m[(size_t)first], NV))) report(cont + "/name/get", "'" + n + "'", hist); }
                else { if (o1 != INVALID_ARGUMENT) report(cont + "/name/absent_idx->" + outcomeName(o1), "'" + n + "'", hist); if (o2 != INVALID_ARGUMENT) report(cont + "/name/absent_get->" + outcomeName(o2), "'" + n + "'", hist); } }
            // state identity: the real container's content
            std::string key; for (size_t i = 0; i < T::size(c); ++i) { MEl e; if (guarded([&] { e = T::at(c, i); }) == OK) key += dumpModel({e}, (i < gap.size() && gap[i]) ? 0 : NV); }
            if (!seen.insert(key).second && !h.empty()) continue;
            g_states++;
            if (d < depth && m.size() <= 5) for (size_t id = 0; id < ops.size(); ++id) { Hist h2 = h; h2.push_back((int)id); next.push_back(h2); g_trans++; }
        }
        frontier.swap(next);
    }
}

// ---------------------------------------------------------------------------------------------- Frame / Analogs
static void exploreFrames() {
    // every way of giving content to a Frame, each followed by edits of the SOURCE: the frame keeps what it was given
    for (int form = 0; form < 5; ++form) for (int edit = 0; edit < 3; ++edit) {
        Shape sh; sh.pts = {"A", "B"}; sh.chans = {"a"}; sh.nsub = 2; Frame src = buildFrame(sh, 1); FrSnap want = intendedFrame(sh, 1);
        Points P = src.points(); Analogs An = src.analogs(); Frame f; std::string how;
        if (form == 0) { f.add(P); how = "add(points)"; want.subs.clear(); } else if (form == 1) { f.add(An); how = "add(analogs)"; want.pts.clear(); } else if (form == 2) { f.add(P, An); how = "add(points,analogs)"; } else if (form == 3) { f.add(src); how = "add(frame)"; } else { f = src; f.add(src.points(), src.analogs()); how = "copy-of-source,add(its own points,analogs)"; }   // (a Frame copy shares; add() is what detaches it)
        if (edit == 0) { P.point_nonConst(0).x(-1.f); An.subframe_nonConst(0).channel_nonConst(0).data(-2.f); src.points_nonConst().point_nonConst(1).z(-3.f); src.analogs_nonConst().subframe_nonConst(1).channel_nonConst(0).data(-4.f); }
        else if (edit == 1) { Point q("EXTRA"); P.point(q); src.points_nonConst().point(q); SubFrame s2; An.subframe(s2); src.analogs_nonConst().subframe(s2); }
        else { P.point_nonConst(0).name("RENAMED"); src.points_nonConst().point_nonConst(0).name("RENAMED"); }
        g_states++; FrSnap got = snapFrame(f);
        if (!got.sameContent(want)) report("frame/" + how + "/source_edit_visible", "the frame changed when the object it was filled from was edited afterwards", how + " ; edit" + std::to_string(edit));
        // and the other way round: editing the frame leaves the source alone
        Frame src2 = buildFrame(sh, 1); Frame g; g.add(src2.points(), src2.analogs()); if (g.points().nbPoints()) g.points_nonConst().point_nonConst(0).x(99.f); if (g.analogs().nbSubframes()) g.analogs_nonConst().subframe_nonConst(0).channel_nonConst(0).data(98.f);
        if (!snapFrame(src2).sameContent(intendedFrame(sh, 1))) report("frame/" + how + "/frame_edit_visible_in_source", "editing the frame changed the object it was filled from", how);
    }
    // Analogs: indexed set of sub-frames (inside, at size, past the end); gap sub-frames are empty
    for (size_t idx : {(size_t)0, (size_t)1, (size_t)3}) for (int pre = 0; pre < 3; ++pre) {
        Analogs A; std::vector<size_t> model; for (int k = 0; k < pre; ++k) { SubFrame s; Channel ch("c"); ch.data((float)k); s.channel(ch); A.subframe(s); model.push_back(1); }
        SubFrame s2; for (auto n : {"x", "y"}) { Channel ch(n); ch.data(5.f); s2.channel(ch); } A.subframe(s2, idx); if (idx >= model.size()) model.resize(idx + 1, 0); model[idx] = 2; g_states++;
        std::string hist = "pre=" + std::to_string(pre) + " ; subframe(sf," + std::to_string(idx) + ")";
        if (A.nbSubframes() != model.size()) report("analogs/size", "holds " + S(A.nbSubframes()) + ", model " + S(model.size()), hist);
        for (size_t i = 0; i <= model.size(); ++i) { size_t n = 99; Outcome oc = guarded([&] { n = A.subframe(i).nbChannels(); }); g_lookups++;
            if (i < model.size()) { if (oc != OK || n != model[i]) report("analogs/pos/wrong_subframe", "index " + S(i), hist); } else if (oc != OUT_OF_RANGE) report(std::string("analogs/pos/beyond->") + outcomeName(oc), "index " + S(i), hist); }
    }
}

// ---------------------------------------------------------------------------------------------- Group / Parameters
struct MParam { std::string name; PSnap snap; };
static void exploreGroups(int depth) {
    auto menu = paramMenu(); std::vector<std::pair<std::string, int>> adds;   // (name, value id)
    for (auto n : {"X", "Y", "x", "X "}) for (int v : {0, 7, 10}) adds.push_back({n, v});
    struct GOp { int kind; size_t a; };   // 0 add/replace adds[a], 1 lock, 2 unlock, 3 rename group, 4 describe
    std::vector<GOp> ops; for (size_t i = 0; i < adds.size(); ++i) ops.push_back({0, i}); ops.push_back({1, 0}); ops.push_back({2, 0}); ops.push_back({3, 0}); ops.push_back({4, 0});
    typedef std::vector<int> Hist; std::set<std::string> seen; std::deque<Hist> frontier; frontier.push_back({});
    for (int d = 0; d <= depth; ++d) { std::deque<Hist> next;
        for (auto& h : frontier) {
            Group g("G", "first description"); std::vector<MParam> m; bool locked = false; std::string gname = "G", gdesc = "first description", hist;
            for (int id : h) { const GOp& o = ops[(size_t)id];
                if (o.kind == 0) { Param p(adds[o.a].first, "d" + std::to_string(o.a)); menu[(size_t)adds[o.a].second].set(p); g.parameter(p); PSnap s = snapParam(p); bool rep = false; for (auto& e : m) if (e.name == adds[o.a].first) { e.snap = s; rep = true; break; } if (!rep) m.push_back({adds[o.a].first, s}); hist += (hist.empty() ? "" : " ; ") + std::string("parameter('") + adds[o.a].first + "'=" + menu[(size_t)adds[o.a].second].id + ")"; }
                else if (o.kind == 1) { g.lock(); locked = true; hist += " ; lock"; } else if (o.kind == 2) { g.unlock(); locked = false; hist += " ; unlock"; }
                else if (o.kind == 3) { g.name("RENAMED "); gname = "RENAMED "; hist += " ; name"; } else { g.description(""); gdesc = ""; hist += " ; description"; } }
            if (g.nbParameters() != m.size()) report("group/size", "holds " + S(g.nbParameters()) + ", model " + S(m.size()), hist);
            if (g.isLocked() != locked) report("group/lock_flag", "", hist); if (g.name() != gname) report("group/name", "'" + g.name() + "'", hist); if (g.description() != gdesc) report("group/description", "", hist);
            for (size_t i = 0; i <= m.size(); ++i) { g_lookups++; PSnap s; Outcome oc = guarded([&] { s = snapParam(g.parameter(i)); }); if (i < m.size()) { if (oc != OK || !(s == m[i].snap)) report("group/pos/wrong_parameter", "index " + S(i), hist); } else if (oc != OUT_OF_RANGE) report(std::string("group/pos/beyond->") + outcomeName(oc), "index " + S(i), hist); }
            for (auto n : {"X", "Y", "x", "X ", "XY", "", "Z"}) { g_lookups++; long first = -1; for (size_t i = 0; i < m.size(); ++i) if (m[i].name == n) { first = (long)i; break; } size_t gi = 99; Outcome oc = guarded([&] { gi = g.parameterIdx(n); });
                if (first >= 0 ? (oc != OK || gi != (size_t)first) : oc != INVALID_ARGUMENT) report("group/name/idx", std::string("'") + n + "'", hist); }
            std::string key; dumpGroup(key, snapGroup(g)); if (!seen.insert(key).second && !h.empty()) continue; g_states++;
            if (d < depth) for (size_t id = 0; id < ops.size(); ++id) { Hist h2 = h; h2.push_back((int)id); next.push_back(h2); g_trans++; }
        }
        frontier.swap(next); }
    // Parameters::group(g): append when the name is new, otherwise merge parameter by parameter into the existing group (which keeps its position, description and lock)
    for (int variant = 0; variant < 4; ++variant) {
        ezc3d::ParametersNS::Parameters P; size_t base = P.nbGroups(); g_states++;
        Group a("ALPHA", "da"); { Param p("ONE"); p.set(1); a.parameter(p); Param q("TWO"); q.set(std::vector<float>() = {2.f, 3.f}); a.parameter(q); } P.group(a);
        Group b("BETA", "db"); { Param p("B1"); p.set(std::string("text")); b.parameter(p); } P.group(b);
        Group a2(variant == 3 ? "alpha" : "ALPHA", "other description"); { Param p("TWO"); p.set(22); a2.parameter(p); Param q("THREE"); q.set(3); a2.parameter(q); } if (variant == 1) a2.lock(); if (variant == 2) P.group_nonConst("ALPHA").lock();
        P.group(a2); std::string hist = "group(ALPHA) ; group(BETA) ; group(" + a2.name() + ") variant " + std::to_string(variant);
        size_t wantGroups = base + (variant == 3 ? 3 : 2); if (P.nbGroups() != wantGroups) { report("parameters/group/count", "holds " + S(P.nbGroups()) + ", expected " + S(wantGroups), hist); continue; }
        if (P.group(base).name() != "ALPHA" || P.group(base + 1).name() != "BETA") report("parameters/group/order", "", hist);
        if (variant != 3) { const Group& A = P.group("ALPHA"); if (A.nbParameters() != 3 || A.parameter(0).name() != "ONE" || A.parameter(1).name() != "TWO" || A.parameter(2).name() != "THREE") report("parameters/group/merge_positions", "", hist);
            else { if (A.parameter(1).type() != ezc3d::DATA_TYPE::INT || A.parameter(1).valuesAsInt().at(0) != 22) report("parameters/group/merge_replace", "", hist); if (A.parameter(0).valuesAsInt().at(0) != 1) report("parameters/group/merge_kept", "", hist); }
            if (A.description() != "da") report("parameters/group/merge_description", "'" + A.description() + "'", hist); if (A.isLocked() != (variant == 2)) report("parameters/group/merge_lock", "", hist); }
        if (P.group("BETA").nbParameters() != 1 || P.group("BETA").parameter(0).valuesAsString().at(0) != "text") report("parameters/group/other_group_changed", "", hist);
        for (auto n : {"ALPHA", "BETA", "alpha", "ALPH", "ALPHA ", ""}) { g_lookups++; bool present = false; for (size_t i = 0; i < P.nbGroups(); ++i) if (P.group(i).name() == n) { present = true; break; } Outcome oc = guarded([&] { (void)P.groupIdx(n); }); if (present ? oc != OK : oc != INVALID_ARGUMENT) report("parameters/group/name_lookup", std::string("'") + n + "'", hist); }
    }
}

// ---------------------------------------------------------------------------------------------- Header
static void exploreHeader() {
    const size_t PTS[] = {0, 1, 3, 255, 300}, ANA[] = {0, 1, 2, 64}, SPF[] = {1, 2, 10, 255}, FIRST[] = {0, 4, 1000}, LEN[] = {1, 2, 64535}; const uint32_t RATE[] = {0u, 0x42480000u, 0x426FC28Fu, 0x7fa00000u, 0x80000000u};
    for (size_t p : PTS) for (size_t a : ANA) for (size_t s : SPF) for (size_t f0 : FIRST) for (size_t len : LEN) for (uint32_t r : RATE) for (int order = 0; order < 2; ++order) {
        ezc3d::Header h; g_states++; std::string hist = "points=" + S(p) + " analogs=" + S(a) + " spf=" + S(s) + " first=" + S(f0) + " len=" + S(len) + " rate=" + std::to_string(r) + " order=" + std::to_string(order);
        if (order == 0) { h.nb3dPoints(p); h.nbAnalogByFrame(s); h.nbAnalogs(a); h.firstFrame(f0); h.lastFrame(f0 + len - 1); h.frameRate(bitsf(r)); }
        else { h.frameRate(bitsf(r)); h.lastFrame(f0 + len - 1); h.firstFrame(f0); h.nbAnalogByFrame(1); h.nbAnalogs(a); h.nbAnalogByFrame(s); h.nb3dPoints(p); }   // (changing the sub-frame count keeps the channel count)
        g_lookups += 8;
        if (h.nb3dPoints() != p) report("header/get/points", "", hist); if (h.nbAnalogByFrame() != s) report("header/get/subframes", "", hist); if (h.nbAnalogs() != a) report("header/get/analogs", "got " + S(h.nbAnalogs()), hist);
        if (h.nbAnalogsMeasurement() != a * s) report("header/get/analog_samples", "got " + S(h.nbAnalogsMeasurement()), hist); if (h.firstFrame() != f0 || h.lastFrame() != f0 + len - 1) report("header/get/frame_range", "", hist);
        if (fbits(h.frameRate()) != r) report("header/get/rate", "", hist); size_t wantFrames = (p == 0 && a == 0) ? 0 : len; if (h.nbFrames() != wantFrames) report("header/get/frame_count", "got " + S(h.nbFrames()) + " expected " + S(wantFrames), hist);
        std::string path = "/dev/shm/ezc3d-verif-hdr." + std::to_string((long)getpid()); freshDestination(path); std::string what;
        Outcome oc = guarded([&] { std::fstream f(path, std::ios::out | std::ios::binary); h.write(f); f.close(); }, &what);
        bool fits = p <= 65535 && a * s <= 65535 && f0 + len <= 65535;
        if (!fits) { if (oc != RANGE_ERROR) report(std::string("header/write/beyond_16_bits->") + outcomeName(oc), "", hist); ::unlink(path.c_str()); continue; }
        if (oc != OK) { report(std::string("header/write/->") + outcomeName(oc), what, hist); ::unlink(path.c_str()); continue; }
        std::string b; readAll(path, b); ::unlink(path.c_str()); if (b.size() != 512) { report("header/write/size", S(b.size()) + " bytes", hist); continue; }
        auto w16 = [&](size_t o) { return (size_t)ref::rd16(b, o); };
        if ((uint8_t)b[0] != 2 || (uint8_t)b[1] != 0x50) report("header/bytes/prologue", "", hist); if (w16(2) != p) report("header/bytes/points", "", hist); if (w16(4) != a * s) report("header/bytes/analog_samples", "", hist);
        if (w16(6) != f0 + 1 || w16(8) != f0 + len) report("header/bytes/frame_range", "wrote " + S(w16(6)) + ".." + S(w16(8)), hist); if (w16(18) != s) report("header/bytes/subframes", "", hist); if (ref::rd32(b, 20) != r) report("header/bytes/rate", "", hist);
    }
}

int main(int argc, char** argv) {
    int depth = 4; std::string out; for (int i = 1; i < argc; ++i) { std::string a = argv[i]; if (a == "--depth" && i + 1 < argc) depth = atoi(argv[++i]); else if (a == "--out" && i + 1 < argc) out = argv[++i]; else if (i + 1 < argc) ++i; }
    // each part runs in a child of its own (in parallel): a crash is an outcome, not the end of the driver
    auto jstr = [](const std::string& s) { std::string o = "\""; for (unsigned char ch : s) { if (ch == '"' || ch == '\\') { o += '\\'; o += (char)ch; } else if (ch < 32 || ch > 126) o += '?'; else o += (char)ch; } return o + "\""; };
    const char* partName[3] = {"points", "subframe", "frame+analogs+group+parameters+header"}; pid_t pid[3]; std::string resf[3]; fflush(stdout);
    for (int k = 0; k < 3; ++k) { resf[k] = "/dev/shm/ezc3d-verif-cont." + std::to_string((long)getpid()) + "." + std::to_string(k); pid[k] = fork();
        if (pid[k] == 0) {
            if (k == 0) exploreElems<Points>(depth); else if (k == 1) exploreElems<SubFrame>(depth); else { exploreFrames(); exploreGroups(depth > 3 ? 3 : depth); exploreHeader(); }
            FILE* f = fopen(resf[k].c_str(), "w"); fprintf(f, "%llu %llu %llu\n", (unsigned long long)g_states, (unsigned long long)g_trans, (unsigned long long)g_lookups);
            for (auto& kv : g_viol) fprintf(f, "{\"sig\": %s, \"detail\": %s, \"history\": %s, \"count\": %zu}\n", jstr(kv.second.sig).c_str(), jstr(kv.second.detail).c_str(), jstr(kv.second.hist).c_str(), kv.second.count);
            fclose(f); _exit(0); } }
    unsigned long long S1 = 0, T1 = 0, L1 = 0; std::vector<std::string> vio;
    for (int k = 0; k < 3; ++k) { int st = 0; waitpid(pid[k], &st, 0); std::ifstream fr(resf[k]); std::string line; bool ok = WIFEXITED(st) && WEXITSTATUS(st) == 0 && std::getline(fr, line);
        if (ok) { unsigned long long a1 = 0, b1 = 0, c1 = 0; sscanf(line.c_str(), "%llu %llu %llu", &a1, &b1, &c1); S1 += a1; T1 += b1; L1 += c1; while (std::getline(fr, line)) if (!line.empty()) vio.push_back(line); }
        else vio.push_back(std::string("{\"sig\": \"crash/containers\", \"detail\": ") + jstr(std::string("the exploration of ") + partName[k] + " died (" + (WIFSIGNALED(st) ? "signal " + std::to_string(WTERMSIG(st)) : "exit " + std::to_string(WEXITSTATUS(st))) + ")") + ", \"history\": \"?\", \"count\": 1}");
        ::unlink(resf[k].c_str()); }
    FILE* f = out.empty() ? stdout : fopen(out.c_str(), "w");
    fprintf(f, "{\"states\": %llu, \"transitions\": %llu, \"lookups\": %llu, \"depth\": %d, \"violations\": [", S1, T1, L1, depth); for (size_t i = 0; i < vio.size(); ++i) fprintf(f, "%s%s", i ? ", " : "", vio[i].c_str()); fprintf(f, "]}\n");
    if (f != stdout) fclose(f);
    return 0;
}
