/* io_shim.h — control block of the fake device placed under libc's file functions (engine C, property C15). */
#ifndef VF_IO_SHIM_H
#define VF_IO_SHIM_H
#ifdef __cplusplus
extern "C" {
#endif
struct ShimPlan {
    int active;            /* 0: everything is forwarded untouched */
    char prefix[64];       /* paths starting with this prefix are "the device" */
    int openErrno;         /* != 0: opening the device fails with this errno */
    long capacity;         /* >= 0: the device refuses to grow beyond this many bytes (partial write, then ENOSPC) */
    long failWriteCall;    /* k > 0: the k-th write call on the device fails with failErrno */
    int failErrno;
    int shortMode;         /* 0 none, -1 every write accepts only half (>=1 byte), k>0 only the k-th write is short; no error */
    int closeFailErrno;    /* != 0: fclose flushes, then reports this errno */
    long failSeekCall;     /* k > 0: the k-th repositioning seek on the device fails with ESPIPE (a destination that accepts bytes but cannot seek: pipe, tty); -1: every one */
};
struct ShimStats { long writeCalls, bytesAccepted, opens, closes, seeks, injected; int devFd; };
extern struct ShimPlan vf_plan;
extern struct ShimStats vf_stats;
void vf_shim_reset(void);
#ifdef __cplusplus
}
#endif
#endif
