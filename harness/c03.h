// c03.h — C03 probe: every saved file decodes, with the independent decoder, to the content in memory;
// all pointers / counts / padding are exact. One clause = one signature.
#pragma once
#include "explorer.h"
#include "refc3d.h"

namespace vf {

inline bool isUpper(const std::string& s) { for (unsigned char c : s) if (::islower(c)) return false; return true; }

// the C03 clauses on (object snapshot, saved bytes). Returns clause violations in `out`.
inline void checkSavedFile(const OSnap& o, const std::string& bytes, Sink& out, bool fromScratch) {
    ref::File F; std::string err = ref::decode(bytes, F, false);
    if (!err.empty()) { V(out, "C03", "undecodable/" + err, "reference decoder: " + err); return; }
    // --- pointers
    if (F.psKey != 0x50) V(out, "C03", "param_addr/prologue_key=" + S(F.psKey), "byte 0 of the header does not point at a parameter prologue");
    size_t dataBytes = F.nFrames * F.frameFloats * 4;
    size_t storedFloats = 0; for (auto& f : o.frames) { storedFloats += 4 * f.pts.size(); for (auto& s : f.subs) storedFloats += s.size(); }
    size_t trueData = bytes.size() - storedFloats * 4;     // where the first frame really is (data is the tail of the file)
    if (trueData % 512 != 0) V(out, "C03", "data_not_block_aligned", "data starts at byte " + S(trueData));
    size_t trueBlock = trueData / 512 + 1;                 // 1-based
    if (F.dataStart != trueBlock) V(out, "C03", "hdr_data_start/written=" + S(F.dataStart) + ",delta=" + SI((long long)F.dataStart - (long long)trueBlock), "header word 9 does not point at the data section (really block " + S(trueBlock) + ")");
    const ref::Rec* ds = F.param("POINT", "DATA_START");
    if (!ds || ds->ints().empty()) V(out, "C03", "point_data_start/missing", "");
    else if ((size_t)(uint16_t)ds->ints()[0] != trueBlock) V(out, "C03", "point_data_start/delta=" + SI((long long)(uint16_t)ds->ints()[0] - (long long)trueBlock), "POINT:DATA_START=" + SI(ds->ints()[0]) + " but data really starts at block " + S(trueBlock));
    size_t trueBlocks = trueData / 512 - (size_t)(F.paramBlock - 1);
    if (F.nBlocks != trueBlocks) V(out, "C03", "block_count/delta=" + SI((long long)F.nBlocks - (long long)trueBlocks), "parameter block count " + S(F.nBlocks) + " but section spans " + S(trueBlocks));
    if (!F.chainExact) V(out, "C03", "next_offsets", F.chainNote);
    if (!F.termByZeroName) V(out, "C03", "terminator/missing", "record chain does not end in a zero name-length byte");
    if (F.termOffset >= trueData) V(out, "C03", "terminator/inside_data", "terminator at " + S(F.termOffset) + " data at " + S(trueData));
    else for (size_t i = F.termOffset; i < trueData && i < bytes.size(); ++i) if (bytes[i] != 0) { V(out, "C03", "padding/nonzero", "byte " + S(i) + " between terminator and data is not zero"); break; }
    // --- header vs parameters (as stored in the file)
    auto pint = [&](const char* g, const char* p, long dflt) -> long { const ref::Rec* r = F.param(g, p); if (!r || r->ints().empty()) return dflt; return (long)(uint16_t)r->ints()[0]; };
    auto pflt = [&](const char* g, const char* p) -> float { const ref::Rec* r = F.param(g, p); if (!r || r->floats().empty()) return 0; return bitsf(r->floats()[0]); };
    long used = pint("POINT", "USED", -1), frames = pint("POINT", "FRAMES", -1), aused = pint("ANALOG", "USED", -1);
    std::string cls = stateClass(o);
    if (used >= 0 && F.nPoints != used) V(out, "C03", "hdr_vs_params/points", "header " + S(F.nPoints) + " POINT:USED " + SI(used));
    if (aused >= 0 && (size_t)F.nAnalogMeas != (size_t)aused * F.spf) V(out, "C03", "hdr_vs_params/analog_samples", "header " + S(F.nAnalogMeas) + " ANALOG:USED " + SI(aused) + " x sub-frames " + S(F.spf));
    if (aused > 0 && pflt("POINT", "RATE") != 0.0f) { float ratio = pflt("ANALOG", "RATE") / pflt("POINT", "RATE"); if (std::fabs((double)ratio - (double)F.spf) > 1e-3) V(out, "C03", "hdr_vs_params/subframes", "header " + S(F.spf) + " rate ratio " + fstr(ratio)); }
    if (frames >= 0 && F.nFrames != (size_t)frames) {
        if (F.nPoints == 0 && F.nAnalogMeas == 0) V(out, "C03", "hdr_vs_params/frames/header-without-points-or-channels", "header first..last " + S(F.first) + ".." + S(F.last) + " POINT:FRAMES " + SI(frames));
        else V(out, "C03", "hdr_vs_params/frames/hdr=" + S(F.nFrames) + ",FRAMES=" + SI(frames) + "/" + cls, "header first..last " + S(F.first) + ".." + S(F.last));
    }
    if (std::fabs((double)bitsf(F.rateBits) - (double)pflt("POINT", "RATE")) > 1e-4) V(out, "C03", "hdr_vs_params/rate", "");
    {   float sc = bitsf(F.scaleBits); if (!(sc < 0)) { char b[16]; snprintf(b, sizeof b, "%08x", F.scaleBits); V(out, "C03", std::string("float_marker/raw=") + b + (fromScratch ? "/from-scratch" : "/loaded"), "header words 7-8 are not a negative float"); } }
    {   const ref::Rec* ps = F.param("POINT", "SCALE"); if (ps && !ps->floats().empty() && !(bitsf(ps->floats()[0]) < 0)) V(out, "C03", "float_marker/POINT:SCALE", ""); }
    // --- data size
    if (bytes.size() < trueData || bytes.size() - trueData != dataBytes) V(out, "C03", "data_size/" + cls, "file holds " + S(bytes.size() - trueData) + " data bytes, header announces " + S(F.nFrames) + " x " + S(F.frameFloats) + " floats");
    // --- names, locks, content
    size_t gi = 0;
    for (auto& g : o.groups) {
        ++gi; const ref::Rec* G = F.group((int)gi);
        if (!G) { V(out, "C03", "content/group_missing", "group #" + S(gi) + " '" + g.name + "'"); continue; }
        if (!isUpper(G->name)) V(out, "C03", "upper_names/group", G->name);
        if (G->name != upper(g.name)) V(out, "C03", "content/group_name", G->name + " vs " + g.name);
        if (G->locked != g.locked) V(out, "C03", "lock_sign/group", g.name);
        if (G->desc != g.desc) V(out, "C03", g.desc.size() > 255 ? "content/group_description/len>255" : "content/group_description", g.name);
        std::vector<const ref::Rec*> ps; for (auto& r : F.recs) if (!r.isGroup && r.id == (int)gi) ps.push_back(&r);
        if (ps.size() != g.params.size()) { V(out, "C03", "content/param_count", g.name); continue; }
        for (size_t j = 0; j < ps.size(); ++j) {
            const PSnap& p = g.params[j]; const ref::Rec& r = *ps[j];
            if (!isUpper(r.name)) V(out, "C03", "upper_names/parameter", r.name);
            if (r.name != upper(p.name)) V(out, "C03", "content/param_name", r.name + " vs " + p.name);
            if (r.locked != p.locked) V(out, "C03", "lock_sign/parameter", g.name + ":" + p.name);
            if (r.desc != p.desc) V(out, "C03", "content/param_description", g.name + ":" + p.name);
            if (r.type != p.type) { V(out, "C03", "content/param_type", g.name + ":" + p.name); continue; }
            std::vector<int> wantDims; for (size_t d : p.dims) wantDims.push_back((int)d);
            bool scalar = p.dims.size() == 1 && p.dims[0] == 1;
            if (!(r.dims == wantDims || (scalar && r.dims.empty()))) V(out, "C03", "content/param_dims", g.name + ":" + p.name);
            bool isDS = upper(g.name) == "POINT" && upper(p.name) == "DATA_START";
            if (p.type == ezc3d::DATA_TYPE::INT || p.type == ezc3d::DATA_TYPE::BYTE) { if (!isDS && r.ints() != p.ints) V(out, "C03", "content/param_int_values", g.name + ":" + p.name); }
            else if (p.type == ezc3d::DATA_TYPE::FLOAT) { if (r.floats() != p.floats) V(out, "C03", "content/param_float_values", g.name + ":" + p.name); }
            else if (p.type == ezc3d::DATA_TYPE::CHAR) {
                std::vector<std::string> a = r.strings(true), b2; for (auto& s : p.strs) b2.push_back(rtrim(s));
                if (r.elemCount() == 0) a.clear();
                bool emptyBoth = true; for (auto& s : b2) if (!s.empty()) emptyBoth = false; for (auto& s : a) if (!s.empty()) emptyBoth = false;
                if (a != b2 && !(emptyBoth)) V(out, "C03", "content/param_string_values/" + S(p.dims.size()) + "D", g.name + ":" + p.name);
            }
        }
    }
    // frames (only comparable when the header announced what is stored)
    if (F.frames.size() == o.frames.size() && F.dataOffset == trueData) {
        for (size_t f = 0; f < o.frames.size(); ++f) {
            std::vector<uint32_t> want; for (auto& p : o.frames[f].pts) for (int k = 0; k < 4; ++k) want.push_back(p.v[k]); for (auto& s : o.frames[f].subs) for (auto& c : s) want.push_back(c.v);
            if (want != F.frames[f]) { V(out, "C03", "content/frame_data", "frame " + S(f)); break; }
        }
    }
}

void probe_C03(World& w, const WSnap& s, Sink& out, ProbeStats& st) {
    if (!probeWorthy(s.o)) { st.skipped++; return; }
    st.probed++;
    std::string p = w.path("c03.c3d"), what; longerDestination(p, 65536, (char)0xEE);   // the destination exists and is longer than any file these alphabets produce
    Outcome oc = guarded([&] { w.c->write(p); }, &what);
    if (oc != OK) { V(out, "C03", std::string("save_throws/") + outcomeName(oc), what); return; }
    std::string bytes; readAll(p, bytes);
    bool fromScratch = s.o.pProc == 84 && s.o.pStart == 1 && s.o.pBlocks == 0;
    checkSavedFile(s.o, bytes, out, fromScratch);
}

} // namespace vf
