// drv_misc.cpp — C17 (capacity limits: at L-1, L, L+1, far beyond; alone and in pairs) and the exhaustive
// (type, dimensions, size) table of the typed parameter setters (C09 part ii).
#include "probes.h"
#include "refc3d.h"
#include "c03.h"
#include <sys/mman.h>
#include <sys/wait.h>
#include <chrono>
#include <set>

using namespace vf;
static double nowS() { return std::chrono::duration<double>(std::chrono::steady_clock::now().time_since_epoch()).count(); }

// ---- C17 ------------------------------------------------------------------------------------------
struct Lim { std::string dim; long L; std::vector<long> levels; };
static std::vector<Lim> limits() {
    return {
        // besides L-1, L, L+1 and far beyond: the values around the SIGNED boundary of the field that carries the quantity (127|128 on one byte, 32767|32768 on two)
        {"param_description", 255, {127, 128, 254, 255, 256, 1000}}, {"param_name", 127, {126, 127, 128, 300}}, {"group_name", 127, {126, 127, 128, 300}}, {"locked_group_name", 127, {126, 127, 128, 129, 200, 256, 300}}, {"locked_param_name", 127, {126, 127, 128, 129, 200, 256, 300}},   // the lock flag is the SIGN of the length byte
        {"dimension_entry", 255, {127, 128, 254, 255, 256, 1000}}, {"empty_string_count", 255, {127, 128, 254, 255, 256, 300}}, {"dimension_after_empty", 255, {127, 128, 254, 255, 256, 300}}, {"string_length", 255, {127, 128, 254, 255, 256, 1000}}, {"string_count", 255, {127, 128, 254, 255, 256, 1000}},
        {"points", 255, {127, 128, 254, 255, 256, 300}}, {"channels", 255, {127, 128, 254, 255, 256, 300}}, {"frames", 32767, {32766, 32767, 32768, 70000}},
        {"int_max", 32767, {32766, 32767, 32768, 100000}}, {"int_min", -32768, {-32767, -32768, -32769, -100000}}, {"param_blocks", 255, {127, 128, 254, 255, 256, 300}}, {"record_offset", 65535, {32767, 32768, 65534, 65535, 65536, 80008, 262144}},
        // bytes of the parameter section up to (not including) its one-byte terminator: 255 blocks hold 255*512-1 of them (byte-exact, where param_blocks moves in steps of a whole record)
        {"param_section_bytes", 130559, {130558, 130559, 130560, 131200}},
        // the last frame NUMBER (header word 5): not reachable through c3d (its first frame is always 0), reachable by writing Header, Parameters and Data stand-alone (all public)
        {"standalone_last_frame", 65535, {65534, 65535, 65536, 100010}},
    };
}
// every quantity also at the powers of two (and their neighbours) below its limit: growth steps of containers, buffer sizes, bit widths of counters
static std::vector<Lim> withLadder(std::vector<Lim> L) {
    for (auto& l : L) { if (l.dim == "int_max" || l.dim == "int_min" || l.dim == "record_offset" || l.dim == "param_section_bytes" || l.dim == "param_blocks") continue;
        for (long v : {15L, 16L, 17L, 31L, 32L, 33L, 63L, 64L, 65L}) if (v < l.L - 1 && std::find(l.levels.begin(), l.levels.end(), v) == l.levels.end()) l.levels.insert(l.levels.begin(), v);
        if (l.dim == "frames") for (long v : {127L, 128L, 255L, 256L, 257L, 1000L}) l.levels.insert(l.levels.begin(), v); }
    return L;
}
static std::string levelClass(const Lim& l, long v) { long a = std::labs(v), b = std::labs(l.L); return a + 1 == b ? "L-1" : a < b ? "inside" : a == b ? "L" : (a == b + 1 ? "L+1" : "beyond"); }
static bool within(const Lim& l, long v) { return std::labs(v) <= std::labs(l.L); }

// applies one (dimension, value) to the object under construction; returns false if not constructible
struct Build { C3D c; long nPoints = 1, nChans = 0, nFrames = 1, wantBlocks = 0, wantSection = 0, standaloneLast = 0; std::string c10, c05; };
static void applyLimit(Build& b, const std::string& dim, long v) {
    if (dim == "param_description") { Param p("DESCR", std::string((size_t)v, 'x')); p.set(3); b.c.parameter("LIMITS", p); }
    else if (dim == "param_name") { Param p(std::string((size_t)v, 'N')); p.set(4); b.c.parameter("LIMITS", p); }
    else if (dim == "locked_group_name") { Param p("INLOCKED"); p.set(5); std::string g((size_t)v, 'L'); b.c.parameter(g, p); Param q("AFTER"); q.set(6); b.c.parameter("ZLAST", q); b.c.lockGroup(g); }
    else if (dim == "locked_param_name") { Param p(std::string((size_t)v, 'K')); p.set(4); p.lock(); b.c.parameter("LIMITS", p); Param q("AFTER"); q.set(6); b.c.parameter("LIMITS", q); }
    else if (dim == "group_name") { Param p("INLONG"); p.set(5); b.c.parameter(std::string((size_t)v, 'G'), p); }
    else if (dim == "dimension_entry") { Param p("WIDE"); std::vector<int> d((size_t)v); for (size_t i = 0; i < d.size(); ++i) d[i] = (int)i - 100; p.set(d); b.c.parameter("LIMITS", p); }
    else if (dim == "empty_string_count") { Param p("BLANKS"); p.set(std::vector<std::string>((size_t)v, std::string())); b.c.parameter("LIMITS", p); }            // dimensions [0, v]
    else if (dim == "dimension_after_empty") { Param p("HOLLOW"); p.set(std::vector<int>(), {0, (size_t)v}); b.c.parameter("LIMITS", p); }                         // a value-less matrix [0, v]
    else if (dim == "string_length") { Param p("LONGSTR"); p.set(std::vector<std::string>() = {std::string((size_t)v, 's'), "t"}); b.c.parameter("LIMITS", p); }
    else if (dim == "string_count") { Param p("MANYSTR"); std::vector<std::string> s; for (long i = 0; i < v; ++i) s.push_back("s" + std::to_string(i)); p.set(s); b.c.parameter("LIMITS", p); }
    else if (dim == "points") b.nPoints = v; else if (dim == "channels") b.nChans = v; else if (dim == "frames" || dim == "last_frame") b.nFrames = v;
    else if (dim == "int_max" || dim == "int_min") { Param p(dim == "int_max" ? "BIGINT" : "SMALLINT"); p.set(std::vector<int>() = {(int)v, 1}); b.c.parameter("LIMITS", p); }
    else if (dim == "standalone_last_frame") { b.standaloneLast = v; b.nFrames = 10; }
    else if (dim == "param_section_bytes") b.wantSection = v;
    else if (dim == "param_blocks") b.wantBlocks = v;   // filled adaptively in finishAndCheck (the section length is only known from a save)
    else if (dim == "record_offset") {   // value of the record's 16-bit next-record offset = 5 + #dims + data bytes
        Param p("HUGE");
        if (v == 32767) { std::vector<std::string> sv(195, std::string(168, 'h')); p.set(sv); }                   // 5 + 2 + 168 x 195
        else if (v == 32768) { std::vector<std::string> sv(181, std::string(181, 'h')); p.set(sv); }              // 5 + 2 + 181 x 181
        else if (v == 65534) { std::vector<std::string> sv(2 * 163, std::string(201, 'h')); p.set(sv, {2, 163}); }
        else if (v == 65535) { std::vector<std::string> sv(23 * 37, std::string(77, 'h')); p.set(sv, {23, 37}); }
        else if (v == 65536) { std::vector<std::string> sv(23 * 37, std::string(77, 'h')); p.set(sv, {23, 37, 1}); }
        else if (v == 80008) { std::vector<std::string> sv(400, std::string(200, 'h')); p.set(sv, {200, 2}); }    // far beyond, as strings (the element size of CHAR is its own case)
        else { std::vector<float> f(255 * 255, 2.5f); p.set(f, {255, 255}); }
        b.c.parameter("LIMITS", p);
    }
}
static size_t paramBlocksOf(const C3D& c, const std::string& dir) {
    std::string p = dir + "/probe.c3d"; freshDestination(p); c.write(p); std::string bytes; readAll(p, bytes);
    size_t data = 0; for (auto& f : c.data().frames()) { data += 16 * f.points().nbPoints(); for (auto& sf : f.analogs().subframes()) data += 4 * sf.nbChannels(); }
    return (bytes.size() - 512 - data) / 512;
}
static std::string finishAndCheck(Build& b, const std::string& dir, std::string& detail) {
    // declare points / channels, rates, frames. A refused declaration must leave the object as it was (C10 at the limits).
    auto guardedCall = [&](const std::function<void()>& call, const std::string& what) {
        std::string before; dumpObject(before, snapObject(b.c));
        try { call(); } catch (...) { std::string after; dumpObject(after, snapObject(b.c)); if (after != before) b.c10 += (b.c10.empty() ? "" : "; ") + what; throw; }
    };
    { Param z("LAST"); z.set(std::vector<int>() = {1, 2, 3}); b.c.parameter("ZZZ", z); }   // a record AFTER the one at the limit: a chain cut short or a wrapped offset loses it
    for (long i = 0; i < b.nPoints; ++i) guardedCall([&] { b.c.point("P" + std::to_string(i)); }, "point(name) #" + std::to_string(i));
    for (long i = 0; i < b.nChans; ++i) guardedCall([&] { b.c.analog("c" + std::to_string(i)); }, "analog(name) #" + std::to_string(i));
    if (b.nPoints) b.c.parameter("POINT", mkRate(100.f)); if (b.nChans) b.c.parameter("ANALOG", mkRate(100.f));
    Shape sh; for (long i = 0; i < b.nPoints; ++i) sh.pts.push_back("P" + std::to_string(i)); for (long i = 0; i < b.nChans; ++i) sh.chans.push_back("c" + std::to_string(i)); sh.nsub = b.nChans ? 1 : 0;
    Frame f0 = buildFrame(sh, 0), f1 = buildFrame(sh, 1);
    for (long f = 0; f < b.nFrames; ++f) {
        try { b.c.frame((f % 2) ? f1 : f0); }
        catch (...) {   // a refused append must leave the three frame counts as they were (cheap form of the C10 comparison: the objects here are too large to dump)
            size_t stored = b.c.data().nbFrames(); long par = b.c.parameters().group("POINT").parameter("FRAMES").valuesAsInt().at(0);
            if ((long)stored != f || par != f) b.c10 += (b.c10.empty() ? "" : "; ") + std::string("frame append #") + std::to_string(f) + " threw, yet " + std::to_string(stored) + " frames are stored and POINT:FRAMES says " + std::to_string(par);
            // … and after the NEXT successful call the three views of the frame count agree (C05)
            if (guarded([&] { Param n("NOTE"); n.set(1); b.c.parameter("AFTERREFUSAL", n); }) == OK) { size_t st2 = b.c.data().nbFrames(), hd = b.c.header().nbFrames(); long pf = b.c.parameters().group("POINT").parameter("FRAMES").valuesAsInt().at(0);
                if (hd != st2 || (long)st2 != pf) b.c05 += "after a refused frame append and one more successful call: header " + std::to_string(hd) + " frames, POINT:FRAMES " + std::to_string(pf) + ", stored " + std::to_string(st2); }
            throw; }
    }
    if (b.wantSection && !b.wantBlocks) b.wantBlocks = 254;   // coarse fill first, then byte-exact tuning below
    if (b.wantBlocks) {   // grow the parameter section to exactly wantBlocks blocks: 60 000-byte fillers, then 480-byte ones
        int k = 0; size_t have = paramBlocksOf(b.c, dir);
        while ((long)have + 118 <= b.wantBlocks) { Param p("FILL" + std::to_string(k++)); std::vector<int> d(120 * 250, 7); p.set(d, {120, 250}); b.c.parameter("FILL", p); have = paramBlocksOf(b.c, dir); }
        while ((long)have < b.wantBlocks) { Param p("FILL" + std::to_string(k++)); std::vector<int> d(240, 9); p.set(d); b.c.parameter(k % 2 ? "FILL" : "FILL2", p); have = paramBlocksOf(b.c, dir); }
        if ((long)have != b.wantBlocks) { detail = "could not build exactly " + std::to_string(b.wantBlocks) + " blocks (have " + std::to_string(have) + ")"; return "harness:block_tuning"; }
    }
    if (b.wantSection) {   // measured by the reference decoder on a save that still fits, then tuned with records of known size (14 bytes + description)
        std::string pp = dir + "/probe.c3d"; freshDestination(pp); b.c.write(pp); std::string bytes; readAll(pp, bytes); ref::File F; std::string e = ref::decode(bytes, F);
        if (!e.empty()) { detail = "probe does not decode: " + e; return "harness:section_tuning"; }
        long have = (long)(F.termOffset - F.paramOffset), delta = b.wantSection - have; int k = 0;
        if (delta < 14) { detail = "coarse fill already beyond the target"; return "harness:section_tuning"; }
        auto add = [&](long desc) { Param p("TUNE" + std::to_string(k++), std::string((size_t)desc, 'u')); p.set(1); b.c.parameter("FILL", p); };
        while (delta >= 2 * 14 + 255) { add(255); delta -= 14 + 255; }
        if (delta > 14 + 255) { long half = delta / 2; add(half - 14); delta -= half; }
        add(delta - 14);
    }
    if (b.standaloneLast) {   // header copied out, renumbered to (last-9 .. last), and the three parts written by hand, as c3d::write does
        ezc3d::Header h(b.c.header()); h.firstFrame((size_t)(b.standaloneLast - 10)); h.lastFrame((size_t)(b.standaloneLast - 1));   // (the Header counts from 0, the file from 1: file number v = internal v-1)
        std::string p2 = dir + "/standalone.c3d", what2; freshDestination(p2);
        Outcome o1 = guarded([&] { std::fstream f(p2, std::ios::out | std::ios::binary); h.write(f); b.c.parameters().write(f); std::streampos dp(f.tellg()); int blk((int)dp / 512 + 1); f.seekg(16); f.write((const char*)&blk, 2); f.seekg(dp); b.c.data().write(f); f.close(); }, &what2);
        if (o1 != OK) { detail = what2; return std::string("save_throws:") + outcomeName(o1); }
        std::unique_ptr<C3D> L2; o1 = guarded([&] { L2.reset(new C3D(p2)); }, &what2);
        if (o1 != OK) { detail = what2; return std::string("reload_throws:") + outcomeName(o1); }
        if (L2->header().firstFrame() != (size_t)(b.standaloneLast - 10) || L2->header().lastFrame() != (size_t)(b.standaloneLast - 1) || L2->data().nbFrames() != 10) { detail = "written frames " + std::to_string(b.standaloneLast - 9) + ".." + std::to_string(b.standaloneLast) + ", loaded " + std::to_string(L2->header().firstFrame() + 1) + ".." + std::to_string(L2->header().lastFrame() + 1) + " (" + std::to_string(L2->data().nbFrames()) + " frames)"; return "reload_differs:header.frame_numbers"; }
        return "roundtrip";
    }
    OSnap saved = snapObject(b.c); std::string p = dir + "/limit.c3d", what;
    freshDestination(p);
    Outcome oc = guarded([&] { b.c.write(p); }, &what);
    if (oc != OK) { detail = what; return std::string("save_throws:") + outcomeName(oc); }
    std::unique_ptr<C3D> L; oc = guarded([&] { L.reset(new C3D(p)); }, &what);
    if (oc != OK) { detail = what; return std::string("reload_throws:") + outcomeName(oc); }
    OSnap l = snapObject(*L); std::vector<std::string> diffs; compareContent(saved, l, diffs);
    if (diffs.empty()) return "roundtrip";
    detail = "differs in"; for (auto& d : diffs) detail += " " + d; return "reload_differs:" + diffs[0];
}

struct Case { std::vector<std::pair<int, long>> parts; };   // (limit index, value)
static std::string caseText(const Case& c, const std::vector<Lim>& L) { std::string s; for (auto& p : c.parts) { if (!s.empty()) s += ";"; s += L[(size_t)p.first].dim + "=" + std::to_string(p.second); } return s; }

static int runC17(const std::string& tier, const std::string& scratch, const std::string& out, const std::string& one, int workers) {
    std::vector<Lim> L = withLadder(limits()); std::vector<Lim> Lpairs = limits(); std::vector<Case> cases; bool thorough = tier == "thorough";
    for (size_t i = 0; i < L.size(); ++i) for (long v : L[i].levels) cases.push_back({{{(int)i, v}}});
    size_t singles = cases.size();
    if (thorough) for (size_t i = 0; i < L.size(); ++i) for (size_t j = i + 1; j < L.size(); ++j) for (long v : Lpairs[i].levels) for (long w : Lpairs[j].levels) {
        auto heavy = [&](size_t k, long x) { return (L[k].dim == "frames" || L[k].dim == "last_frame") ? (x > 1000 ? 2 : 0) : ((L[k].dim == "points" || L[k].dim == "channels") ? 1 : 0); };
        if (heavy(i, v) + heavy(j, w) >= 3) continue;                                              // frames x points/channels at the limits: > 10^7 points, not built
        if ((L[i].dim == "frames" || L[i].dim == "last_frame") && (L[j].dim == "frames" || L[j].dim == "last_frame")) continue;   // the same knob
        if ((L[i].dim == "param_blocks" && L[j].dim == "param_section_bytes") || (L[i].dim == "param_section_bytes" && L[j].dim == "param_blocks")) continue;   // the same knob (length of the parameter section)
        if ((L[i].dim == "param_blocks" && L[j].dim == "record_bytes") || (L[i].dim == "int_max" && L[j].dim == "int_min")) { }
        cases.push_back({{{(int)i, v}, {(int)j, w}}});
    }
    if (!one.empty()) {
        for (auto& cs : cases) if (caseText(cs, L) == one) { Build b; for (auto& p : cs.parts) applyLimit(b, L[(size_t)p.first].dim, p.second); std::string d; std::string o = finishAndCheck(b, scratch, d); printf("%s -> %s %s\n", one.c_str(), o.c_str(), d.c_str()); return 0; }
        printf("case not found\n"); return 2;
    }
    // fork workers
    std::vector<pid_t> pids; double t0 = nowS();
    for (int wi = 0; wi < workers; ++wi) {
        fflush(stdout); pid_t p = fork();
        if (p == 0) {
            std::string dir = scratch + "/w" + std::to_string(wi); mkdir(dir.c_str(), 0755); FILE* fo = fopen((dir + ".res").c_str(), "w");
            for (size_t i = (size_t)wi; i < cases.size(); i += (size_t)workers) {
                fprintf(fo, "%zu\tSTART\t\n", i); fflush(fo);
                std::string detail, outc;
                std::string c10, c05;
                Outcome oc = guarded([&] { Build b; try { for (auto& p2 : cases[i].parts) applyLimit(b, L[(size_t)p2.first].dim, p2.second); outc = finishAndCheck(b, dir, detail); } catch (...) { c10 = b.c10; c05 = b.c05; throw; } c10 = b.c10; c05 = b.c05; }, &detail);
                if (!c05.empty()) { fprintf(fo, "%zu\tC05\t%s\n", i, c05.c_str()); fflush(fo); }
                if (oc != OK) outc = std::string("build_throws:") + outcomeName(oc);
                if (!c10.empty()) { fprintf(fo, "%zu\tC10\t%s\n", i, c10.c_str()); fflush(fo); }
                for (auto& ch : detail) if (ch == '\t' || ch == '\n') ch = ' ';
                fprintf(fo, "%zu\t%s\t%s\n", i, outc.c_str(), detail.substr(0, 300).c_str()); fflush(fo);
            }
            fclose(fo); _exit(0);
        }
        pids.push_back(p);
    }
    std::vector<int> status; for (auto p : pids) { int st; waitpid(p, &st, 0); status.push_back(st); }
    std::map<std::string, size_t> outcomes; struct VR { std::string sig, cs, detail; size_t count; bool pair; size_t idx; }; std::map<std::string, VR> viol; size_t done = 0; std::vector<std::string> samples; std::set<std::string> badSingles; size_t explained = 0;
    for (int wi = 0; wi < workers; ++wi) {
        std::ifstream fr(scratch + "/w" + std::to_string(wi) + ".res"); std::string line; long started = -1;
        auto handle = [&](size_t i, const std::string& outc, const std::string& detail) {
            const Case& cs = cases[i]; bool allWithin = true; std::string dims, lv;
            for (auto& p : cs.parts) { const Lim& l = L[(size_t)p.first]; if (!within(l, p.second)) allWithin = false; dims += (dims.empty() ? "" : "+") + l.dim; lv += (lv.empty() ? "" : "+") + levelClass(l, p.second); }
            std::string kind = outc.substr(0, outc.find(':')); outcomes[(allWithin ? "within:" : "beyond:") + kind]++; done++;
            if (samples.size() < 8 && i % 9 == 0) samples.push_back(caseText(cs, L) + " -> " + outc);
            bool bad = false;
            if (kind == "harness") { outcomes["not-constructible"]++; return; }   // the two requested sizes cannot be met together by the builder (e.g. exactly 127 blocks AND a 64 KiB record): no case
            if (kind == "roundtrip") bad = false; else if (kind == "save_throws" || kind == "build_throws") bad = allWithin; else bad = true;   // reload_throws / reload_differs / crash: silent corruption or lost in-limit content
            if (bad && cs.parts.size() == 1) badSingles.insert(caseText(cs, L));
            if (bad) { std::string sig = dims + "/" + (allWithin ? lv : std::string("beyond-limit")) + "/" + (allWithin ? outc : kind); auto it = viol.find(sig); if (it == viol.end()) viol[sig] = {sig, caseText(cs, L), detail, 1, cs.parts.size() > 1, i}; else it->second.count++; }
        };
        while (std::getline(fr, line)) {
            size_t a = line.find('\t'), b = line.find('\t', a + 1); if (a == std::string::npos || b == std::string::npos) continue;
            size_t i = (size_t)strtoull(line.c_str(), nullptr, 10); std::string outc = line.substr(a + 1, b - a - 1);
            if (outc == "START") { started = (long)i; continue; }
            if (outc == "C05") { std::string sig = "C05|frame_counts_disagree/at-capacity-limit/" + L[(size_t)cases[i].parts[0].first].dim; auto it = viol.find(sig); if (it == viol.end()) viol[sig] = {sig, caseText(cases[i], L), line.substr(b + 1), 1, false, i}; else it->second.count++; continue; }
            if (outc == "C10") { std::string sig = "C10|changed_on_throw/at-capacity-limit/" + L[(size_t)cases[i].parts[0].first].dim; auto it = viol.find(sig); if (it == viol.end()) viol[sig] = {sig, caseText(cases[i], L), "a refused declaration left the object changed: " + line.substr(b + 1), 1, false, i}; else it->second.count++; continue; }
            started = -1; handle(i, outc, line.substr(b + 1));
        }
        if (started >= 0) handle((size_t)started, std::string("crash:") + (WIFSIGNALED(status[(size_t)wi]) ? "signal_" + std::to_string(WTERMSIG(status[(size_t)wi])) : "exit"), "worker died while building / saving / reloading this case");
    }
    // a failing pair is explained by (attributed to) a failing single it contains; only pairs of individually fine parts are reported on their own
    for (auto it = viol.begin(); it != viol.end();) {
        bool drop = false;
        if (it->second.pair) { const Case& cs = cases[it->second.idx]; for (auto& p2 : cs.parts) { Case one1{{p2}}; if (badSingles.count(caseText(one1, L))) drop = true; } }
        if (drop) { explained += it->second.count; it = viol.erase(it); } else ++it;
    }
    auto jstr = [](const std::string& s) { std::string o = "\""; for (unsigned char ch : s) { if (ch == '"' || ch == '\\') { o += '\\'; o += (char)ch; } else if (ch < 32 || ch > 126) o += '?'; else o += (char)ch; } return o + "\""; };
    FILE* f = out.empty() ? stdout : fopen(out.c_str(), "w");
    fprintf(f, "{\n \"tier\": %s, \"pair_violations_explained_by_a_failing_single\": %zu, \"cases\": %zu, \"single_cases\": %zu, \"pair_cases\": %zu, \"done\": %zu, \"wall_s\": %.1f,\n \"outcomes\": {", jstr(tier).c_str(), explained, cases.size(), singles, cases.size() - singles, done, nowS() - t0);
    { bool first = true; for (auto& kv : outcomes) { fprintf(f, "%s%s: %zu", first ? "" : ", ", jstr(kv.first).c_str(), kv.second); first = false; } }
    fprintf(f, "},\n \"samples\": ["); for (size_t i = 0; i < samples.size(); ++i) fprintf(f, "%s%s", i ? ", " : "", jstr(samples[i]).c_str());
    fprintf(f, "],\n \"violations\": [\n"); { bool first = true; for (auto& kv : viol) { fprintf(f, "%s  {\"sig\": %s, \"case\": %s, \"detail\": %s, \"count\": %zu}", first ? "" : ",\n", jstr(kv.second.sig).c_str(), jstr(kv.second.cs).c_str(), jstr(kv.second.detail).c_str(), kv.second.count); first = false; } }
    fprintf(f, "\n ]\n}\n"); if (f != stdout) fclose(f);
    return 0;
}

// ---- C09 (ii): typed setters over every (type, dimension vector, data size) ---------------------------------
static std::string g_setterScratch;
static int runSetterTable(const std::string& tier, const std::string& out, const std::string& transcript) {
    FILE* tf = transcript.empty() ? nullptr : fopen(transcript.c_str(), "w");
    bool thorough = tier == "thorough"; size_t maxProd = thorough ? 24 : 8; size_t maxLen = thorough ? 7 : 4;
    std::vector<std::vector<size_t>> shapes; shapes.push_back({});
    std::function<void(std::vector<size_t>&)> rec = [&](std::vector<size_t>& cur) {
        if (cur.size() >= maxLen) return;
        for (size_t d : {(size_t)0, (size_t)1, (size_t)2, (size_t)3}) { cur.push_back(d); size_t prod = 1; for (size_t x : cur) prod *= (x ? x : 1); if (prod <= maxProd) { shapes.push_back(cur); rec(cur); } cur.pop_back(); }
    };
    std::vector<size_t> cur; rec(cur); shapes.push_back({255}); shapes.push_back({255, 2}); shapes.push_back({2, 255});
    struct VR { std::string sig, cs; size_t count; }; std::map<std::string, VR> viol; size_t evals = 0, accepted = 0, refused = 0; std::vector<std::string> samples;
    auto shapeText = [](const std::vector<size_t>& s) { std::string t = "["; for (size_t i = 0; i < s.size(); ++i) { if (i) t += ","; t += std::to_string(s[i]); } return t + "]"; };
    for (auto& sh : shapes) for (size_t n = 0; n <= (thorough ? 25u : 9u) + (sh.size() && sh[0] == 255 ? 600u : 0u); ++n) for (int type = 0; type < 3; ++type) {
        if (sh.size() && sh[0] >= 255 && !(n == 0 || n == 254 || n == 255 || n == 256 || n == 509 || n == 510 || n == 511)) continue;
        if (sh.size() > 1 && sh[1] >= 255 && !(n == 0 || n == 509 || n == 510 || n == 511)) { if (n > 25) continue; }
        Param p("X", "keep"); p.set(std::vector<int>() = {11, 22}); p.lock(); PSnap before = snapParam(p);
        size_t prod = 1; for (size_t d : sh) prod *= d; bool expectOk = sh.empty() ? true : (n == prod); evals++;
        std::vector<int> iv(n, 5); std::vector<float> fv(n, 1.5f); std::vector<std::string> sv; size_t longest = 0; for (size_t i = 0; i < n; ++i) { sv.push_back(std::string(i % 4, 'q')); longest = std::max(longest, i % 4); }
        Outcome oc = guarded([&] { if (type == 0) p.set(iv, sh); else if (type == 1) p.set(fv, sh); else p.set(sv, sh); });
        PSnap after = snapParam(p); const char* tn = type == 0 ? "int" : type == 1 ? "float" : "string"; std::string cs = std::string(tn) + " dims=" + shapeText(sh) + " size=" + std::to_string(n);
        if (samples.size() < 8 && evals % 997 == 1) samples.push_back(cs + " -> " + outcomeName(oc));
        if (tf) { std::string t; dumpParam(t, after); fprintf(tf, "%s -> %s %s\n", cs.c_str(), outcomeName(oc), hashStr(t).hex().c_str()); }
        auto add = [&](const std::string& sig) { auto it = viol.find(sig); if (it == viol.end()) viol[sig] = {sig, cs, 1}; else it->second.count++; };
        if (expectOk) {
            accepted++;
            if (oc != OK) { add(std::string("consistent_shape_refused/") + tn + "/" + outcomeName(oc)); continue; }
            std::vector<size_t> want = sh.empty() ? std::vector<size_t>{n} : sh; if (type == 2) want.insert(want.begin(), longest);
            if (after.dims != want) add(std::string("dimensions_after_set/") + tn);
            if (after.type != (type == 0 ? (int)ezc3d::DATA_TYPE::INT : type == 1 ? (int)ezc3d::DATA_TYPE::FLOAT : (int)ezc3d::DATA_TYPE::CHAR)) add(std::string("type_after_set/") + tn);
            size_t got = type == 0 ? after.ints.size() : type == 1 ? after.floats.size() : after.strs.size(); if (got != n) add(std::string("values_after_set/") + tn);
            if (after.name != before.name || after.desc != before.desc || after.locked != before.locked) add(std::string("metadata_changed_by_set/") + tn);
        } else {
            refused++;
            if (oc != RANGE_ERROR) add(std::string("inconsistent_shape->") + outcomeName(oc) + "/" + tn);
            if (after != before) add(std::string("parameter_changed_by_refused_set/") + tn);
        }
    }
    // the reshape idiom p.set(p.valuesAsX(), newDims): the data argument aliases the parameter's own storage
    for (int type = 0; type < 3; ++type) for (auto& sh : std::vector<std::vector<size_t>>{{6}, {2, 3}, {3, 2}, {1, 6}, {6, 1}, {1, 2, 3}}) {
        Param p("X"); if (type == 0) p.set(std::vector<int>() = {1, 2, 3, 4, 5, 6}); else if (type == 1) p.set(std::vector<float>() = {1, 2, 3, 4, 5, 6}); else p.set(std::vector<std::string>() = {"a", "bb", "ccc", "a string that lives on the heap, not in the small buffer", "ee", "fff"});
        PSnap before = snapParam(p); evals++; accepted++;
        Outcome oc = guarded([&] { if (type == 0) p.set(p.valuesAsInt(), sh); else if (type == 1) p.set(p.valuesAsFloat(), sh); else p.set(p.valuesAsString(), sh); });
        PSnap after = snapParam(p); const char* tn = type == 0 ? "int" : type == 1 ? "float" : "string"; std::string cs = std::string(tn) + " reshape through own values to " + shapeText(sh);
        if (tf) { std::string t; dumpParam(t, after); fprintf(tf, "%s -> %s %s\n", cs.c_str(), outcomeName(oc), hashStr(t).hex().c_str()); }
        auto add = [&](const std::string& sig) { auto it = viol.find(sig); if (it == viol.end()) viol[sig] = {sig, cs, 1}; else it->second.count++; };
        if (!g_setterScratch.empty()) guarded([&] { C3D c; c.parameter("RESHAPED", p); std::string pp = g_setterScratch + "/reshaped.c3d"; freshDestination(pp); c.write(pp); C3D l(pp); });   // what the dimensions announce is read back out of the value store by the writer
        if (oc != OK) add(std::string("reshape_refused/") + tn); else if (after.ints != before.ints || after.floats != before.floats || after.strs != before.strs) add(std::string("reshape_through_own_values_loses_values/") + tn);
    }
    auto jstr = [](const std::string& s) { std::string o = "\""; for (unsigned char ch : s) { if (ch == '"' || ch == '\\') { o += '\\'; o += (char)ch; } else o += (char)ch; } return o + "\""; };
    if (tf) fclose(tf);
    FILE* f = out.empty() ? stdout : fopen(out.c_str(), "w");
    fprintf(f, "{\n \"tier\": %s, \"shapes\": %zu, \"evaluations\": %zu, \"expected_accept\": %zu, \"expected_refuse\": %zu,\n \"samples\": [", jstr(tier).c_str(), shapes.size(), evals, accepted, refused);
    for (size_t i = 0; i < samples.size(); ++i) fprintf(f, "%s%s", i ? ", " : "", jstr(samples[i]).c_str());
    fprintf(f, "],\n \"violations\": [\n"); { bool first = true; for (auto& kv : viol) { fprintf(f, "%s  {\"sig\": %s, \"case\": %s, \"count\": %zu}", first ? "" : ",\n", jstr(kv.second.sig).c_str(), jstr(kv.second.cs).c_str(), kv.second.count); first = false; } }
    fprintf(f, "\n ]\n}\n"); if (f != stdout) fclose(f);
    return 0;
}

std::string vf::takeSanitizerReport() { return std::string(); }

// ---- residue sweep (C03 / C01): the parameter-section length takes every residue modulo 512 -----------------------
// For each base object, filler parameters grow the section one byte at a time over 1024 consecutive lengths; every object is saved,
// decoded by the reference decoder (all C03 clauses), reloaded by the library and compared (C01 projection).
static void residueBase(C3D& c, const std::string& base) {
    if (base == "blank") return;
    if (base == "points") { c.point("A"); c.point("B"); c.parameter("POINT", mkRate(100.f)); Shape sh; sh.pts = {"A", "B"}; Frame f = buildFrame(sh, 0); f.points_nonConst().point_nonConst(0).x(123.456f); c.frame(f); c.frame(buildFrame(sh, 2)); return; }
    if (base == "analogs") { c.analog("a"); c.parameter("POINT", mkRate(50.f)); c.parameter("ANALOG", mkRate(100.f)); Shape sh; sh.chans = {"a"}; sh.nsub = 2; c.frame(buildFrame(sh, 1)); return; }
    if (base == "both") { c.point("P"); c.analog("a"); c.analog("b"); c.parameter("POINT", mkRate(100.f)); c.parameter("ANALOG", mkRate(100.f)); Shape sh; sh.pts = {"P"}; sh.chans = {"a", "b"}; sh.nsub = 1; c.frame(buildFrame(sh, 1)); c.frame(buildFrame(sh, 0)); c.lockGroup("ANALOG"); return; }
}
static int runResidue(const std::string& tier, const std::string& scratch, const std::string& out, const std::string& one, int workers) {
    bool thorough = tier == "thorough"; std::vector<std::string> bases = thorough ? std::vector<std::string>{"blank", "points", "analogs", "both"} : std::vector<std::string>{"points", "both"};
    struct Case { std::string base; int len; }; std::vector<Case> cases; for (auto& b : bases) for (int L = 0; L < 1024; ++L) cases.push_back({b, L});
    auto text = [](const Case& c) { return c.base + ":fill=" + std::to_string(c.len); };
    auto runOne = [&](const Case& cs, const std::string& dir, Sink& sink, size_t& secLen) {
        C3D c; residueBase(c, cs.base); int rest = cs.len, k = 0;
        while (rest > 0 || k == 0) { int n = std::min(rest, 255); Param p("F" + std::to_string(k), std::string((size_t)std::min(n, 100), 'd')); p.set(std::vector<std::string>() = {std::string((size_t)(n - std::min(n, 100)), 'v')}); c.parameter("FILLER", p); rest -= n; k++; if (cs.len == 0) break; }
        WSnap s; s.o = snapObject(c); std::string p = dir + "/residue.c3d", what; freshDestination(p); Outcome oc = guarded([&] { c.write(p); }, &what);
        if (oc != OK) { V(sink, "C03", std::string("save_throws/") + outcomeName(oc), what); return; }
        std::string bytes; readAll(p, bytes); checkSavedFile(s.o, bytes, sink, true);
        ref::File F; if (ref::decode(bytes, F, false).empty()) secLen = F.termOffset - F.paramOffset;
        std::unique_ptr<C3D> L; oc = guarded([&] { L.reset(new C3D(p)); }, &what);
        if (oc != OK) { V(sink, "C01", std::string("roundtrip/reload_throws/") + outcomeName(oc) + "/residue", what); return; }
        std::vector<std::string> diffs; compareContent(s.o, snapObject(*L), diffs); for (auto& d : diffs) V(sink, "C01", "roundtrip/" + d, "saved and reloaded object differ in " + d);
    };
    if (!one.empty()) { for (auto& cs : cases) if (text(cs) == one) { Sink sink; size_t sl = 0; runOne(cs, scratch, sink, sl); printf("%s: records end %zu bytes into the section (residue %zu)\n", one.c_str(), sl, sl % 512); for (auto& v : sink) printf("  VIOLATION %s %s :: %s\n", v.prop.c_str(), v.sig.c_str(), v.detail.c_str()); return sink.empty() ? 0 : 1; } printf("case not found\n"); return 2; }
    std::vector<pid_t> pids;
    for (int wi = 0; wi < workers; ++wi) { fflush(stdout); pid_t p = fork(); if (p == 0) { std::string dir = scratch + "/w" + std::to_string(wi); mkdir(dir.c_str(), 0755); FILE* fo = fopen((dir + ".res").c_str(), "w");
            for (size_t i = (size_t)wi; i < cases.size(); i += (size_t)workers) { Sink sink; size_t sl = 0; fprintf(fo, "S\t%zu\n", i); fflush(fo); runOne(cases[i], dir, sink, sl); fprintf(fo, "D\t%zu\t%zu\n", i, sl); for (auto& v : sink) { std::string d = v.detail; for (auto& ch : d) if (ch == '\t' || ch == '\n') ch = ' '; fprintf(fo, "V\t%zu\t%s\t%s\t%s\n", i, v.prop.c_str(), v.sig.c_str(), d.c_str()); } fflush(fo); }
            fclose(fo); _exit(0); } pids.push_back(p); }
    for (auto p : pids) { int st; waitpid(p, &st, 0); }
    std::set<size_t> residues; size_t done = 0; struct VR { std::string prop, sig, cs, detail; size_t count; }; std::map<std::string, VR> viol; std::vector<std::string> crashed;
    for (int wi = 0; wi < workers; ++wi) { std::ifstream fr(scratch + "/w" + std::to_string(wi) + ".res"); std::string line; long started = -1;
        while (std::getline(fr, line)) { std::vector<std::string> f; size_t a = 0; while (true) { size_t b = line.find('\t', a); f.push_back(line.substr(a, b == std::string::npos ? std::string::npos : b - a)); if (b == std::string::npos) break; a = b + 1; }
            if (f[0] == "S") started = atol(f[1].c_str()); else if (f[0] == "D") { started = -1; done++; residues.insert((size_t)atol(f[2].c_str()) % 512); }
            else if (f[0] == "V" && f.size() >= 5) { std::string key = f[2] + "|" + f[3]; auto it = viol.find(key); if (it == viol.end()) viol[key] = {f[2], f[3], text(cases[(size_t)atol(f[1].c_str())]), f[4], 1}; else it->second.count++; } }
        if (started >= 0) crashed.push_back(text(cases[(size_t)started])); }
    auto jstr = [](const std::string& s) { std::string o = "\""; for (unsigned char ch : s) { if (ch == '"' || ch == '\\') { o += '\\'; o += (char)ch; } else if (ch < 32 || ch > 126) o += '?'; else o += (char)ch; } return o + "\""; };
    FILE* f = out.empty() ? stdout : fopen(out.c_str(), "w");
    fprintf(f, "{\n \"tier\": %s, \"cases\": %zu, \"done\": %zu, \"bases\": %zu, \"distinct_residues\": %zu,\n \"samples\": [%s, %s],\n \"crashed\": [", jstr(tier).c_str(), cases.size(), done, bases.size(), residues.size(), jstr(text(cases[0])).c_str(), jstr(text(cases[cases.size() / 2])).c_str());
    for (size_t i = 0; i < crashed.size(); ++i) fprintf(f, "%s%s", i ? ", " : "", jstr(crashed[i]).c_str());
    fprintf(f, "],\n \"violations\": [\n"); { bool first = true; for (auto& kv : viol) { fprintf(f, "%s  {\"prop\": %s, \"sig\": %s, \"case\": %s, \"detail\": %s, \"count\": %zu}", first ? "" : ",\n", jstr(kv.second.prop).c_str(), jstr(kv.second.sig).c_str(), jstr(kv.second.cs).c_str(), jstr(kv.second.detail).c_str(), kv.second.count); first = false; } }
    fprintf(f, "\n ]\n}\n"); if (f != stdout) fclose(f);
    return 0;
}

int main(int argc, char** argv) {
    std::string mode = "c17", tier = "quick", scratch, out, one, transcript; int workers = 16;
    for (int i = 1; i < argc; ++i) { std::string a = argv[i]; auto nxt = [&]() { return std::string(argv[++i]); };
        if (a == "--mode") mode = nxt(); else if (a == "--tier") tier = nxt(); else if (a == "--scratch") scratch = nxt(); else if (a == "--out") out = nxt(); else if (a == "--case") one = nxt(); else if (a == "--workers") workers = atoi(nxt().c_str()); else if (a == "--transcript") transcript = nxt(); else { fprintf(stderr, "unknown arg %s\n", a.c_str()); return 2; } }
    if (scratch.empty()) scratch = "/dev/shm/ezc3d-verif-misc." + std::to_string(getpid()); mkdir(scratch.c_str(), 0755);
    if (mode == "c17") return runC17(tier, scratch, out, one, workers);
    if (mode == "setters") { g_setterScratch = scratch; return runSetterTable(tier, out, transcript); }
    if (mode == "residue") return runResidue(tier, scratch, out, one, workers);
    return 2;
}
