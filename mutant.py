#!/usr/bin/env python3
"""mutant.py — run the repository's own tests and selected checks against a changed copy of /repo.

  mutant.py <patch.diff | revert:<commit>> [--props C05,C10] [--tier quick] [--no-tests] [--twice]

A scratch git worktree of /repo is created under /tmp, the change applied, (1) the pinned test suite built and
run against it, (2) each listed check run with VERIF_REPO pointing at it; the worktree is removed afterwards.
Prints one summary line per step; exit 0 iff tests pass AND every listed check reports a VIOLATION.
"""
import sys, os, subprocess, shutil, hashlib, glob, argparse, json, time
from concurrent.futures import ThreadPoolExecutor

VERIF = os.path.dirname(os.path.abspath(__file__))
REPO = "/repo"
CACHE = os.path.join(VERIF, "build", "mutant-cache")


def sh(cmd, **kw):
    return subprocess.run(cmd, **kw)


def run_repo_tests(wt):
    """Compile the worktree's library + the (unedited) test file against the gtest already built in /repo/_build."""
    os.makedirs(CACHE, exist_ok=True)
    bdir = os.path.join(wt, "_mut_build"); os.makedirs(bdir, exist_ok=True)
    inc = ["-I" + os.path.join(wt, "include"), "-I" + os.path.join(REPO, "external/gtest/googletest/include")]
    flags = ["-std=gnu++11", "-O2", "-g", "-DNDEBUG", "-fPIC"]
    h = hashlib.sha256()
    for f in sorted(glob.glob(os.path.join(wt, "include", "*.h"))) + [os.path.join(REPO, "test", "test_ezc3d.cpp")]:
        h.update(open(f, "rb").read())
    testobj = os.path.join(CACHE, "test_" + h.hexdigest()[:16] + ".o")
    jobs = []
    objs = []
    for src in sorted(glob.glob(os.path.join(wt, "src", "*.cpp"))):
        o = os.path.join(bdir, os.path.basename(src)[:-4] + ".o"); objs.append(o)
        jobs.append(["g++"] + flags + inc + ["-c", src, "-o", o])
    if not os.path.exists(testobj):
        jobs.append(["g++"] + flags + inc + ["-c", os.path.join(REPO, "test", "test_ezc3d.cpp"), "-o", testobj])
    with ThreadPoolExecutor(max_workers=16) as ex:
        res = list(ex.map(lambda c: sh(c, capture_output=True, text=True), jobs))
    for r in res:
        if r.returncode != 0:
            return False, "does not compile: " + r.stderr[-800:]
    exe = os.path.join(bdir, "runUnitTests")
    r = sh(["g++", "-o", exe, testobj] + objs + ["-L" + os.path.join(REPO, "_build/lib"), "-lgtest_main", "-lgtest", "-lpthread",
            "-Wl,-rpath," + os.path.join(REPO, "_build/lib")], capture_output=True, text=True)
    if r.returncode != 0:
        return False, "does not link: " + r.stderr[-800:]
    rundir = os.path.join(bdir, "run"); os.makedirs(rundir, exist_ok=True)
    shutil.copytree(os.path.join(REPO, "test", "c3dFiles"), os.path.join(rundir, "c3dTestFiles"), dirs_exist_ok=True)
    r = sh([exe], cwd=rundir, capture_output=True, text=True, timeout=600)
    tail = [l for l in r.stdout.splitlines() if "PASSED" in l or "FAILED" in l][-6:]
    return r.returncode == 0, " | ".join(tail)


def main():
    ap = argparse.ArgumentParser()
    ap.add_argument("change"); ap.add_argument("--props", default=""); ap.add_argument("--tier", default="quick")
    ap.add_argument("--no-tests", action="store_true"); ap.add_argument("--twice", action="store_true"); ap.add_argument("--keep", action="store_true")
    a = ap.parse_args()
    wt = f"/tmp/ezc3d-mut.{os.getpid()}"
    builds_before = set(glob.glob(os.path.join(VERIF, "build", "*-*")))
    sh(["git", "-C", REPO, "worktree", "prune"])
    r = sh(["git", "-C", REPO, "worktree", "add", "--detach", "-q", wt, "HEAD"], capture_output=True, text=True)
    if r.returncode != 0:
        print("cannot create worktree:", r.stderr); return 2
    rc = 0
    try:
        if a.change.startswith("revert:"):
            r = sh(["git", "-C", wt, "revert", "-n", a.change[7:]], capture_output=True, text=True)
        else:
            r = sh(["git", "-C", wt, "apply", "--whitespace=nowarn", os.path.abspath(a.change)], capture_output=True, text=True)
        if r.returncode != 0:
            print("change does not apply:", r.stderr[-500:]); return 2
        if not a.no_tests:
            ok, msg = run_repo_tests(wt)
            print(f"[mutant] repo tests: {'PASS' if ok else 'FAIL'} :: {msg}")
            if not ok:
                rc = 3
        env = dict(os.environ); env["VERIF_REPO"] = wt; env["VERIF_KEEP_BUILDS"] = "1"; env["VERIF_EVIDENCE_DIR"] = os.path.join(wt, "_evidence")
        for p in [x for x in a.props.split(",") if x]:
            for rnd in range(2 if a.twice else 1):
                t0 = time.time()
                r = sh([sys.executable, os.path.join(VERIF, "run.py"), "check", p, "--tier", a.tier], env=env, capture_output=True, text=True)
                viol = [l for l in r.stdout.splitlines() if l.startswith("VIOLATION")]
                sigs = [l.strip() for l in r.stdout.splitlines() if l.strip().startswith("signature:")]
                print(f"[mutant] check {p} run {rnd + 1}: exit={r.returncode} violations={len(viol)} {time.time() - t0:.1f}s :: " + " ; ".join(s[11:] for s in sigs[:4]))
                if r.returncode != 1 or not viol:
                    rc = rc or 1
                    if r.returncode not in (0, 1):
                        print(r.stdout[-600:], r.stderr[-600:])
    finally:
        if not a.keep:
            sh(["git", "-C", REPO, "worktree", "remove", "--force", wt], capture_output=True)
            shutil.rmtree(wt, ignore_errors=True)
            # drop harness builds made for the mutant tree
            for d in glob.glob(os.path.join(VERIF, "build", "*-*")):
                if d not in builds_before and os.path.isdir(d) and not d.endswith("mutant-cache") and os.path.exists(os.path.join(d, ".mutant")):
                    shutil.rmtree(d, ignore_errors=True)
    return rc


if __name__ == "__main__":
    sys.exit(main())
