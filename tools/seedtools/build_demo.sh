#!/bin/bash
# usage: build_demo.sh <worktree> <demo.cpp> <out-exe> [extra g++ flags]  — compiles demo.cpp against the library sources of <worktree>
set -e
WT=$(realpath "$1"); SRC=$(realpath "$2"); OUT="$3"; shift 3
B=$(mktemp -d /tmp/seeddemo.XXXXXX)
for f in "$WT"/src/*.cpp; do g++ -std=gnu++11 -O1 -g -I"$WT/include" "$@" -c "$f" -o "$B/$(basename "$f" .cpp).o" & done; wait
g++ -std=gnu++11 -O1 -g -I"$WT/include" "$@" "$SRC" "$B"/*.o -lpthread -o "$OUT"; rm -rf "$B"
