#!/bin/bash
# usage: run_tests.sh <worktree>   — builds the library of <worktree> and the repository's unedited test suite against it, runs the 18 gtest cases
set -e
WT=$(realpath "$1"); B="$WT/_seed_build"; mkdir -p "$B/run"
cd "$B"
pids=()
for f in "$WT"/src/*.cpp; do g++ -std=gnu++11 -O2 -g -DNDEBUG -fPIC -I"$WT/include" -c "$f" -o "$B/$(basename "$f" .cpp).o" & pids+=($!); done
if [ ! -f /tmp/seedtools/test_obj.o ] || [ "$WT/include" -nt /tmp/seedtools/test_obj.o ]; then
  g++ -std=gnu++11 -O2 -g -DNDEBUG -I"$WT/include" -I/repo/external/gtest/googletest/include -c /repo/test/test_ezc3d.cpp -o "$B/test_obj.o" & pids+=($!)
  OBJ="$B/test_obj.o"
else OBJ=/tmp/seedtools/test_obj.o; fi
for p in "${pids[@]}"; do wait $p || { echo "COMPILE FAILED"; exit 2; }; done
LIBO=$(ls "$B"/*.o | grep -v test_obj.o); g++ -o "$B/runUnitTests" "$OBJ" $LIBO -L/repo/_build/lib -lgtest_main -lgtest -lpthread -Wl,-rpath,/repo/_build/lib 2>&1 | grep -v "^$" | head -5
rm -rf "$B/run/c3dTestFiles"; cp -r /repo/test/c3dFiles "$B/run/c3dTestFiles"
cd "$B/run" && "$B/runUnitTests" 2>&1 | grep -E "^\[  (PASSED|FAILED)|FAILED TEST|tests ran" | head -20
