#!/bin/bash
cd /verif
h() { git -C /repo log --format=%h --grep="$1" -1; }
run() { echo "### $1 -> $2"; python3 mutant.py revert:$(h "$1") --props $2 2>&1 | grep "^\[mutant\]\|does not apply" | cut -c1-400; }
run "copying a point keeps its residual" C01,C06
run "appending a frame stores a copy" C08
run "update the header frame range after" C05
run "first non-empty frame" C05
run "column adders validate every new column" C10
run "empty vector of frames is refused" C07
run "untyped parameter is refused before" C10
run "records the trimmed name in LABELS" C11
run "saved files point at their data section" C03
run "without any sub-frame is refused with invalid_argument" C07
run "event labels shorter than 4" C14
run "one-dimensional string parameter is written padded" C04
run "description lengths are read as unsigned" C02
run "CHAR parameter without dimensions" C02
run "placeholder groups of unused ids" C04
run "rounded ratio of the rates" C02
run "saving reports an I/O failure" C15
run "number of dimensions of a parameter is read unsigned" C16
run "matrix readers stop with an I/O failure" C16
run "header update reads the mandatory" C16
echo BATCHDONE
