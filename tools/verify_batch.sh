#!/bin/bash
# verify_batch.sh <suffix>   — verifies every /tmp/seed_out/C??<suffix> seed against its own property's check and its neighbours'
declare -A REL=( [C01]="C01,C03" [C02]="C02,C12,C04" [C03]="C03,C04" [C04]="C04,C14" [C05]="C05,C08,C10" [C06]="C06,C08" [C07]="C07,C06" [C08]="C08,C06" [C09]="C09" [C10]="C10" [C11]="C11" [C12]="C12,C09,C02" [C13]="C13,C09" [C14]="C14,C18" [C15]="C15" [C16]="C16" [C17]="C17,C03" [C18]="C18" [C19]="C19" )
cd /verif
for d in /tmp/seed_out/C??$1; do id=$(basename $d); p=${id:0:3}; [ -f $d/patch.diff ] || continue; [ -f /verif/seeded/$id/meta.json ] && [ -z "$FORCE" ] && continue
  flags=""; grep -q "pthread\|thread" $d/meta.json 2>/dev/null && flags="--demo-flags=-pthread"; grep -q "fsanitize=address" $d/meta.json 2>/dev/null && flags="--demo-flags=-fsanitize=address"
  python3 verify_seed.py $id --props ${REL[$p]} $flags 2>&1 | grep "^\[seed\|PATCH" | cut -c1-230
done
