#!/usr/bin/env python3
"""bounds_table.py <thorough-run-log>  — prints the markdown rows of DESIGN.md §9.5 from evidence/*.json (last quick pass) and a thorough pass's log"""
import json, re, sys, os
V = os.path.join(os.path.dirname(os.path.abspath(__file__)), "..")
thor = {}
if len(sys.argv) > 1:
    for line in open(sys.argv[1], errors="replace"):
        m = re.match(r'\[(C\d\d)/thorough\] states=(\S+) transitions=(\S+) evaluations=(\S+) exhaustive=(\S+) new_violations=(\d+) known=(\d+) wall=([\d.]+)s', line)
        if m: thor[m.group(1)] = m.groups()[1:]
def fmt(x):
    try: return f"{int(x):,}".replace(',', ' ')
    except Exception: return '–'
print("| id | quick (last pass on /repo, `evidence/<id>.json`) | thorough (last full pass, 900 s per check) |\n|---|---|---|")
for i in range(1, 20):
    pid = f"C{i:02d}"; c = json.load(open(os.path.join(V, "evidence", pid + ".json")))["coverage"]
    q = (f"{fmt(c.get('states'))} states / {fmt(c.get('transitions'))} transitions / " if c.get('states') else "") + f"{fmt(c.get('evaluations'))} evaluations, exhaustive={c.get('exhaustive')}"
    t = thor.get(pid)
    tt = "–" if not t else ((f"{fmt(t[0])} states / {fmt(t[1])} transitions / " if t[0] != 'None' else "") + f"{fmt(t[2])} evaluations, exhaustive={t[3]}, {float(t[6]):.0f} s")
    print(f"| {pid} | {q} | {tt} |")
