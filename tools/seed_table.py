#!/usr/bin/env python3
"""prints the markdown table of /verif/seeded/*/meta.json (used for DESIGN.md §9.7)"""
import json, glob, os
rows = []
for d in sorted(glob.glob(os.path.join(os.path.dirname(os.path.abspath(__file__)), "..", "seeded", "*"))):
    m = json.load(open(os.path.join(d, "meta.json")))
    c = m.get("confirmed", {})
    sid = os.path.basename(d)
    det = c.get("detected_by", [])
    sigs = []
    for p in det:
        sigs += c["checks"][p]["signatures"][:1]
    first = "as is" if ("MISSED" not in m.get("history", "") ) else "after strengthening"
    if m.get("undetected"):
        det = ["NOT detected"]; first = "see history"
    if m.get("rejected"):
        det = ["rejected: outside the statement"]; first = "see history"
    rows.append(f"| {sid} | {m.get('property','')} | {m.get('summary','').replace('|','/')[:170]} | {m.get('needs_to_manifest','').replace('|','/')[:150]} | {'pass' if c.get('repo_tests_pass_with_patch') else 'FAIL'} | {', '.join(det) or 'none'} ({first}) | `{(sigs[0] if sigs else '')[:90]}` |")
print("| seed | property | change | needs to manifest | repo tests | detected by | first signature |\n|---|---|---|---|---|---|---|")
print("\n".join(rows))
