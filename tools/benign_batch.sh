#!/bin/bash
# benign_batch.sh <dir-with-*.diff> [props]   — every behaviour-preserving patch must pass the repo's tests AND leave every listed quick check at exit 0
PROPS=${2:-C01,C02,C03,C04,C05,C06,C07,C08,C09,C10,C11,C12,C13,C14,C15,C16,C17,C18,C19}
cd /verif
for d in "$1"/*.diff; do
  echo "=== $(basename $d)"
  python3 mutant.py "$d" --props $PROPS 2>&1 | grep "^\[mutant\]\|does not apply" | sed 's/ :: *$//' | cut -c1-220
done
