#!/usr/bin/env python3
"""Regenerates MANIFEST.json from the table below (keeps the file valid and consistent with run.py)."""
import json, os
V = os.path.dirname(os.path.abspath(__file__))
CHECKS = {
 # id: (category, technique, text, note, design_ref, engine)
 "C01": ("model_checking", "explicit-state BFS over construction histories on the real code + save/load probe in every state",
         "Every state reachable by bounded construction histories (declare, rates, 16 parameter shapes, descriptions, locks, frames, columns, reload; also from 6 loaded roots) is saved, reloaded with the library and compared field by field (bit-exact floats, residuals, dims, descriptions, locks, header counts).",
         "bounded by the alphabet/shape guards in coverage.runs; POINT:DATA_START's value is excluded (file pointer, C03); strings compared modulo trailing spaces", "§3 C01", "api"),
 "C02": ("exploration", "deviation-bounded exhaustive enumeration of well-formed files (independent encoder) executed on the real loader, compared with an independent reference decoder",
         "Default content/layout plus every combination of <= 3 (quick) / 4 (thorough) non-default alternatives over 20 content and layout dimensions (incl. every vendor layout the statement lists), plus the four shipped binary files; each loaded object is compared with the reference decode of the same bytes: header counts, frame range, rates, events, every named group/parameter (type, dims, values, description, lock), every point x/y/z/residual and every analog sample at its (frame, sub-frame, channel). Only minimal deviation sets are reported.",
         "trusted base: genfile.h/refc3d.h written from the spec (decode(encode(x)) checked on every case; decoder also runs on the vendor files)", "§3 C02", "file"),
 "C04": ("exploration", "deviation-bounded exhaustive enumeration of well-formed files through 3 (quick) / 4 (thorough) load/save generations on the real code; self-differential + byte equality",
         "Every file of the C02 enumeration (<= 2 / 3 deviations) and the shipped files: G1=load(f), save, G2=load, save(, G3): content of consecutive generations equal on named groups/parameters, frames, residuals, samples, frame range, rates, events; generation-2 and generation-3 files byte-identical.",
         "placeholder groups of unused ids are ignored in the comparison", "§3 C04", "file"),
 "C12": ("exploration", "exhaustive enumeration of integer / float bit patterns in generated files, loaded, compared with the reference reading, re-saved and compared byte-wise",
         "All 2^8 byte values, all 2^16 integer values, boundary-dense header words and 2048 float patterns (every exponent and sign) in every float-carrying position, each pattern file in 3 (thorough: 9) layouts: loaded value = the bytes' two's-complement / unsigned / bit-pattern reading; re-saved element bytes identical.",
         "float patterns: 4 mantissas per exponent/sign; header rate patterns step 8 in quick, all in thorough", "§3 C12", "file"),
 "C03": ("model_checking", "explicit-state BFS on the real code + independent reference decoder on every saved file",
         "Every reachable object is saved and its bytes decoded by refc3d (spec-level decoder that follows only the file's own pointers); 12 clauses (pointers, block count, next-offsets, terminator, padding, header-vs-parameters, float marker, data size, upper-case names, lock signs, content) each with its own signature.",
         "trusted base: harness/refc3d.h (bound to the vendor files and to the implementation by the selftest and by C02)", "§3 C03", "api"),
 "C05": ("model_checking", "explicit-state BFS over mutator histories on the real code, invariant evaluated in every reachable state",
         "All interleavings of the 60-op mutator alphabet (declare, rates, parameters, append/replace/extend conforming and documented-deviating frames, both column adders conforming and deviating, refused parameter calls, reload) up to the depth bound; the header / POINT / ANALOG / data agreement is evaluated in every distinct state. A second alphabet ('loaded') applies every editing call to objects LOADED from the default generated file and from every file that differs from it in one generator dimension.",
         "frames with undocumented deviations, rate edits after data, and column adds on data sets that still hold gap frames are outside the property's quantifier and not generated", "§3 C05", "api"),
 "C06": ("model_checking", "explicit-state BFS on the real code with a snapshot-differential transition oracle",
         "Every frame call (append, each existing index, count, count+1, count+2; three value sets incl. special floats; caller registers) and every column add from every reachable data-set size is compared with the pre-state snapshot: count, target content bit-exact, all other frames bit-identical, gap frames empty, exactly one trailing column. Also run over the 'c07' and 'loaded' (objects loaded from every single-deviation generated file) alphabets.",
         "sizes bounded by the shape guards (frames <= 4/5, points <= 3, channels <= 2)", "§3 C06", "api"),
 "C07": ("model_checking", "explicit-state BFS on the real code; three-valued documented predicate computed from the pre-state",
         "Object states (declared/undeclared x rates x data x reload) crossed with 14 frame deviations x 3 targets and 18 column deviations; the expected verdict (must-accept / must-refuse(class) / don't-care) is computed from the pre-state's public accessors and the header documentation only; rates include 0.5 Hz, frames include ragged sub-frames; the 'loaded' alphabet repeats the editing calls on objects loaded from every single-deviation generated file.",
         "verdict is don't-care wherever the documented contract is silent", "§3 C07", "api"),
 "C08": ("model_checking", "explicit-state BFS on the real code over caller-register histories; snapshot differential",
         "Caller-side frame registers are built, submitted (append / indexed), mutated, extended, copied and re-submitted, interleaved with in-place edits of stored frames and column adds; after every caller-side op the object must be unchanged, after every object-side op the registers and the other frames must be unchanged; the aliasing partition is part of the state key; frames are handed over as lvalues and as temporaries copied from a register; also on objects loaded from generated files (alphabet loaded), on objects without shape guards (alphabet wild), with a composite take-edit-put-back op, and on the stand-alone container classes against a std::vector model (drv_containers); snapshots include the by-name view.",
         "2 registers, <= 4/5 stored frames", "§3 C08", "api"),
 "C09": ("model_checking", "explicit-state BFS on the real code over parameter/group edit sequences + exhaustive shape table",
         "Add / replace / lock / unlock over existing and new groups x names x value menu: created-iff-absent, replaced-in-place-iff-present, look-up equals the given parameter, every other group/parameter identical at the same index, frames untouched, lock toggles flip one flag; names differing by case only are distinct parameters; a well-formed parameter is never refused; Group and Parameters::group (append or merge) stand-alone against a model.",
         "value menu of 6 (quick) / 10 (thorough) shapes", "§3 C09", "api"),
 "C10": ("model_checking", "explicit-state BFS on the real code; whole-object snapshot equality on every refused transition",
         "Every throwing transition met by the mutator, precondition, parameter and loaded-object alphabets (including partly-invalid arguments, ragged frames, refused declarations at the capacity limits) must leave the full snapshot (header, parameters, frames, caller frames, aliasing) identical.",
         "rides on the alphabets of C05/C07/C09, on the 'loaded' roots and on 'wild' (the mutator alphabet without any shape guard, incl. hand-edited mandatory parameters)", "§3 C10", "api"),
 "C13": ("model_checking", "explicit-state BFS on the real code built with ASan/UBSan/_GLIBCXX_ASSERTIONS; sanitizer is the oracle on every transition, probe and destructor",
         "The eight engine-A alphabets (mutators, frames/registers, preconditions, parameters, look-ups, construction, edits of loaded objects, unguarded mutators) are re-explored with the address/undefined sanitizers and libstdc++ assertions; every distinct state is additionally printed, saved, reloaded and destroyed; recoverable reports are attributed to the transition, fatal ones through the worker breadcrumb.",
         "ASan-invisible errors (intra-object overflow) out of reach; file-space inputs are covered by C02/C04/C16 runs", "§3 C13", "api"),
 "C14": ("model_checking", "explicit-state BFS on the real code; per-state save/save probe, three-process MALLOC_PERTURB_ digest join, memcheck pass",
         "In every reachable state the object is snapshotted, saved to a fresh path, saved again over an existing longer file, and snapshotted again (purity, repeatability, bytes determined by the object alone); the exploration is repeated in three processes whose fresh heap bytes differ (MALLOC_PERTURB_ unset/0x55/0xAA) and the per-state file digests are joined on the state key; a shallower exploration runs entirely under valgrind memcheck and counts errors around each save.",
         "stack-sourced garbage is visible only to the memcheck pass (depth 1 quick / 2 thorough)", "§3 C14", "api"),
 "C15": ("fault_enumeration", "exhaustive single-fault (thorough: pair) enumeration over a fake device interposed under libc: every capacity, every write call, every open/close fault",
         "For 5 objects (the 5th ~2 MB, coarser steps) every fault plan is executed on the real save path, called directly, from inside a catch handler and during stack unwinding: open fails (3 errnos), device capacity C for every C in [0,size), k-th write call fails (2 errnos) for every k, k-th seek fails, close fails, all/k-th write short; every write-capable descriptor the save opens is followed (several opens, append mode); oracle: returned normally => the device holds exactly the fault-free bytes, otherwise std::ios_base::failure must propagate; short writes alone must not fail. Plans run in a fixed order under a deadline; plans not reached are counted (plans_not_run_deadline, exhaustive=false).",
         "faults injected at fopen/fopen64/write/writev/fclose by link-time interposition (verified to sit under libstdc++'s basic_filebuf)", "§3 C15", "fault"),
 "C16": ("fault_enumeration", "exhaustive damage enumeration (truncations, byte overwrites, structural-field sweeps, pairs) of small valid files loaded by the real code in forked children under cap + watchdog, plain and ASan builds",
         "7 base files; children forked from a pristine process and ('primed' runs) from a process that has already loaded 12 valid files; every truncation length; every byte of header+parameters+first data block x 5 boundary values; every structural byte x 256 values; pairs of structural bytes x boundary values; child must end through 'object returned' or 'std::exception': no signal, no sanitizer report, no timeout (re-run alone with 10x limit), no memory growth stopped only by the cap (re-checked under 8 GiB).",
         "signature = outcome / innermost ezc3d function / damaged field kind", "§3 C16", "damage"),
 "C17": ("exploration", "bounded-exhaustive enumeration of capacity limits at L-1, L, L+1, far beyond, alone and in pairs, built through the API, saved and reloaded on the real code",
         "16 capacity limits (one of them the parameter section's byte-exact length), each also at the signed boundary of its field (127|128, 32767|32768); at or below L the content must round-trip (C01 projection); above L saving must throw or the reload must equal the saved object (anything else is silent corruption).",
         "pairs with > 10^7 points not built; last-frame-number limit covered by C12's header sweep", "§3 C17", "misc"),
 "C18": ("model_checking", "stateless preemption-bounded exhaustive schedule exploration of the real code under a cooperative scheduler (scheduling points: library function entry/exit, operator new/delete, libc I/O; every schedule in a fresh process) + free-running ThreadSanitizer pass",
         "2-thread (thorough: also 3-thread) groups of bodies on independent objects; all thread orders, one preemption at every one of ~1.3-2.1*10^4 fine points per thread, two preemptions over all pairs of coarse points; every schedule is a real execution whose per-thread digest (dump after every op, saved bytes, exception classes) must equal the body run alone; diverging schedules are re-run before being reported; function-local statics are handled by a cooperative guard; bodies include edits of loaded files that lack different optional parameters. The same bodies run free under TSan (hand-offs of a cooperative scheduler would blind it).",
         "sub-function interleavings and weak memory only via the TSan pass", "§3 C18", "sched"),
 "C19": ("exploration", "configuration matrix: the six supported CMake builds each run the same deterministic exhaustive corpora; transcripts compared line by line",
         "Debug/RelWithDebInfo/Release x shared/static built with the project's CMakeLists; corpora: three API state spaces (every transition with outcome class + successor hash + saved-file digest per state), the file corpus through load/save generations, all integer/float pattern files, the setter shape table, and one construction history executed by a static object's constructor (before main) and by main.",
         "harness objects compiled once; x86-64 gcc only", "§3 C19", "c19"),
 "C11": ("model_checking", "explicit-state BFS on the real code + exhaustive look-up sweep in every state",
         "In every distinct state every positional accessor is called with {0..size-1,size,size+1,2^32,2^64-1} and every by-name accessor with {present, absent, case variant, padded, empty}; typed getters on every parameter, also after refused set() calls on a copy; Points / SubFrame / Analogs / Group used stand-alone against a vector model (drv_containers); trailing-space naming clause on every naming call; Point::data() against the components.",
         "container sizes bounded by the shape guards", "§3 C11", "api"),
}
NOT_YET = {}
TODO = []

def main():
    checks = []
    for pid, (cat, tech, text, note, ref, eng) in sorted(CHECKS.items()):
        checks.append({"property_id": pid, "quick_cmd": f"python3 run.py check {pid} --tier quick", "thorough_cmd": f"python3 run.py check {pid} --tier thorough",
                       "evidence_file": f"/verif/evidence/{pid}.json", "replay_cmd_template": "python3 run.py replay {path}", "engine": eng,
                       "level_claimed": {"category": cat, "text": text, "design_ref": ref}, "level_note": note, "technique": tech})
    na = [{"property_id": p, "reason": "check under construction in this round (see DESIGN.md §8); not claimed yet"} for p in TODO if p not in CHECKS]
    m = {"version": 1, "setup_cmd": "python3 run.py build plain asan sched tsan",
         "hooks": {"guard": "EZC3D_VERIF", "enable": "no source hooks are needed: state is read through public accessors, libc is interposed at link time, scheduling points come from -finstrument-functions",
                   "baseline_off_cmd": "cmake --build /repo/_build && ctest --test-dir /repo/_build -j8 --timeout 900", "source_commits": [], "add_only": True},
         "engines": [{"name": "file", "path": "harness/drv_file.cpp", "serves_properties": sorted(p for p, c in CHECKS.items() if c[5] == "file"), "kind_free_text": "deviation-bounded enumeration of generated C3D files (independent encoder/decoder) executed on the real loader and writer"},
                     {"name": "fault", "path": "harness/drv_fault.cpp + harness/io_shim.c", "serves_properties": ["C15"], "kind_free_text": "fake device under libc with an exhaustive fault plan enumeration"},
                     {"name": "damage", "path": "harness/drv_damage.cpp", "serves_properties": ["C16"], "kind_free_text": "exhaustive damage enumeration, forked loader children under cap and watchdog"},
                     {"name": "misc", "path": "harness/drv_misc.cpp", "serves_properties": ["C17", "C09"], "kind_free_text": "capacity-limit enumeration and setter shape table"},
                     {"name": "sched", "path": "harness/drv_sched.cpp", "serves_properties": ["C18"], "kind_free_text": "cooperative scheduler + preemption-bounded schedule enumeration; TSan free-run"},
                     {"name": "c19", "path": "run.py (check_c19)", "serves_properties": ["C19"], "kind_free_text": "six CMake configurations x deterministic corpora, transcript equality"},
                     {"name": "api", "path": "harness/drv_api.cpp", "serves_properties": sorted(p for p, c in CHECKS.items() if c[5] == "api"), "kind_free_text": "explicit-state BFS over API histories executed on the real library (forked level-synchronous workers, 128-bit state hash of the public-accessor dump + aliasing partition)"}],
         "checks": checks, "not_applicable": na,
         "notes": "All checks rebuild the harness against /repo's current working tree (content-hashed cache under /verif/build). Known findings: known_findings.json."}
    json.dump(m, open(os.path.join(V, "MANIFEST.json"), "w"), indent=1)

if __name__ == "__main__":
    main()
