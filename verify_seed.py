#!/usr/bin/env python3
"""verify_seed.py <ID> --props C05,C10 [--demo-flags "..."] [--keep-only-if-valid]

Confirms a sub-agent's seeded change (/tmp/seed_out/<ID>/{patch.diff,demo.cpp,meta.json}) independently:
  1. the patch applies to /repo's HEAD in a scratch worktree and the repository's tests pass with it,
  2. the demonstration passes on /repo and fails with the patch,
  3. runs the listed checks against the patched tree (quick tier) and records which report a VIOLATION,
then stores everything under /verif/seeded/<ID>/ (patch.diff, demo.cpp, meta.json with a "confirmed" block)."""
import sys, os, json, subprocess, shutil, argparse, time, glob

VERIF = os.path.dirname(os.path.abspath(__file__))
sys.path.insert(0, VERIF)
import mutant  # noqa: E402


def sh(cmd, **kw):
    return subprocess.run(cmd, **kw)


def build_demo(tree, demo, out, flags):
    b = f"/tmp/seeddemo.{os.getpid()}"
    shutil.rmtree(b, ignore_errors=True); os.makedirs(b)
    procs = []
    for src in sorted(glob.glob(os.path.join(tree, "src", "*.cpp"))):
        procs.append(subprocess.Popen(["g++", "-std=gnu++11", "-O1", "-g", "-I" + os.path.join(tree, "include")] + flags + ["-c", src, "-o", os.path.join(b, os.path.basename(src)[:-4] + ".o")]))
    ok = all(p.wait() == 0 for p in procs)
    if ok:
        r = sh(["g++", "-std=gnu++11", "-O1", "-g", "-I" + os.path.join(tree, "include")] + flags + [demo] + sorted(glob.glob(os.path.join(b, "*.o"))) + ["-lpthread", "-o", out], capture_output=True, text=True)
        ok = r.returncode == 0
        if not ok:
            print(r.stderr[-800:])
    shutil.rmtree(b, ignore_errors=True)
    return ok


def main():
    ap = argparse.ArgumentParser()
    ap.add_argument("id"); ap.add_argument("--props", default=""); ap.add_argument("--demo-flags", default=""); ap.add_argument("--tier", default="quick")
    ap.add_argument("--runs", type=int, default=3); ap.add_argument("--src", default=None)
    a = ap.parse_args()
    src = a.src or f"/tmp/seed_out/{a.id}"
    patch = os.path.join(src, "patch.diff"); demo = os.path.join(src, "demo.cpp")
    meta = json.load(open(os.path.join(src, "meta.json"))) if os.path.exists(os.path.join(src, "meta.json")) else {}
    stored = os.path.join(VERIF, "seeded", a.id, "meta.json")
    if os.path.exists(stored):
        old = json.load(open(stored))
        for k2 in ("confirmed", "history", "note"):
            if k2 in old and k2 not in meta:
                meta[k2] = old[k2]
    flags = a.demo_flags.split() if a.demo_flags else []
    wt = f"/tmp/ezc3d-seedwt.{os.getpid()}"
    builds_before = set(glob.glob(os.path.join(VERIF, "build", "*-*")))
    sh(["git", "-C", "/repo", "worktree", "prune"])
    r = sh(["git", "-C", "/repo", "worktree", "add", "--detach", "-q", wt, "HEAD"], capture_output=True, text=True)
    conf = {"repo_head": sh(["git", "-C", "/repo", "rev-parse", "--short", "HEAD"], capture_output=True, text=True).stdout.strip(), "when": time.strftime("%Y-%m-%d %H:%M")}
    try:
        r = sh(["git", "-C", wt, "apply", "--whitespace=nowarn", os.path.abspath(patch)], capture_output=True, text=True)
        conf["patch_applies"] = r.returncode == 0
        if r.returncode != 0:
            print("PATCH DOES NOT APPLY:", r.stderr[-400:]); return 2
        ok, msg = mutant.run_repo_tests(wt)
        conf["repo_tests_pass_with_patch"] = ok; print(f"[seed {a.id}] repo tests with patch: {'PASS' if ok else 'FAIL'} :: {msg}")
        d0, d1 = f"/tmp/seeddemo_orig.{os.getpid()}", f"/tmp/seeddemo_mut.{os.getpid()}"
        b0 = build_demo("/repo", demo, d0, flags); b1 = build_demo(wt, demo, d1, flags)
        rc0 = [sh([d0], capture_output=True, timeout=600).returncode for _ in range(a.runs)] if b0 else None
        rc1 = [sh([d1], capture_output=True, timeout=600).returncode for _ in range(a.runs)] if b1 else None
        conf["demo_exit_codes_on_repo"] = rc0; conf["demo_exit_codes_with_patch"] = rc1; conf["demo_flags"] = flags
        print(f"[seed {a.id}] demo on /repo: {rc0}   demo with patch: {rc1}")
        for f in (d0, d1):
            if os.path.exists(f):
                os.remove(f)
        env = dict(os.environ); env["VERIF_REPO"] = wt; env["VERIF_KEEP_BUILDS"] = "1"; env["VERIF_EVIDENCE_DIR"] = os.path.join(wt, "_evidence")
        det = {}
        for p in [x for x in a.props.split(",") if x]:
            t0 = time.time()
            r = sh([sys.executable, os.path.join(VERIF, "run.py"), "check", p, "--tier", a.tier], env=env, capture_output=True, text=True)
            sigs = [l.strip()[11:] for l in r.stdout.splitlines() if l.strip().startswith("signature:")]
            det[p] = {"exit": r.returncode, "violations": len([l for l in r.stdout.splitlines() if l.startswith("VIOLATION")]), "signatures": sigs[:6], "wall_s": round(time.time() - t0, 1)}
            print(f"[seed {a.id}] check {p}: exit={r.returncode} violations={det[p]['violations']} {det[p]['wall_s']}s :: " + " ; ".join(sigs[:3]))
        prev = meta.get("confirmed", {}).get("checks", {})   # keep the results of earlier runs for checks not re-run now
        for k2, v2 in prev.items():
            det.setdefault(k2, v2)
        conf["checks"] = det
        valid = conf["repo_tests_pass_with_patch"] and rc0 is not None and all(c == 0 for c in rc0) and rc1 is not None and any(c != 0 for c in rc1)
        conf["valid_seed"] = bool(valid)
        conf["detected_by"] = sorted(p for p, d in det.items() if d["exit"] == 1 and d["violations"] > 0)
        dst = os.path.join(VERIF, "seeded", a.id); os.makedirs(dst, exist_ok=True)
        shutil.copy(patch, os.path.join(dst, "patch.diff")); shutil.copy(demo, os.path.join(dst, "demo.cpp"))
        meta["confirmed"] = conf
        json.dump(meta, open(os.path.join(dst, "meta.json"), "w"), indent=1)
        print(f"[seed {a.id}] valid={valid} detected_by={conf['detected_by']}")
    finally:
        sh(["git", "-C", "/repo", "worktree", "remove", "--force", wt], capture_output=True); shutil.rmtree(wt, ignore_errors=True)
        for d in glob.glob(os.path.join(VERIF, "build", "*-*")):
            if d not in builds_before and os.path.isdir(d) and os.path.exists(os.path.join(d, ".mutant")):
                shutil.rmtree(d, ignore_errors=True)
    return 0


if __name__ == "__main__":
    sys.exit(main())
